import json,os,re
d=json.load(open('/verif/work/r10_table.json'))
rows=[]; missed=[]; n=0
order=sorted(d, key=lambda s:(s.split('_')[0], int(s.split('_m')[1])))
for name in order:
    f='/verif/seeded/%s/meta.json'%name
    if not os.path.exists(f): continue
    m=json.load(open(f)); n+=1
    prop=name.split('_')[0]
    caught=[c for c,r in m['results'].items() if r['exit']==1]
    cell=', '.join(caught) if caught else '**missed**'
    if not caught: missed.append(name)
    rows.append('| %s | %s | %s |'%(name,d[name],cell))
print('\n'.join(rows)); print(n, missed)
open('/verif/work/r10_rows.md','w').write('\n'.join(rows)+'\n')
