#!/bin/bash
# run seedrun for every confirmed round-10 seed as its confirmation line appears
cd /verif
touch work/r10_done.txt
while true; do
  did=0
  for name in $(cat work/confirm10*.log 2>/dev/null | grep -E "CLEAN\[test result: ok.*PATCHED\[test result: FAILED.*LIB1\[test result: ok.*LIB2\[test result: ok" | cut -d: -f1); do
    if ! grep -qx "$name" work/r10_done.txt; then
      grep -h "^$name:" work/confirm10*.log >> work/confirm.log
      prop=${name%%_*}
      python3 tools/seedrun.py $name $prop >> work/seedmatrix_r10.log 2>&1
      echo $name >> work/r10_done.txt
      did=1
    fi
  done
  if [ $did = 0 ]; then
    [ -e work/r10_stop ] && break
    sleep 10
  fi
done
echo DRIVER-DONE >> work/seedmatrix_r10.log
