#!/bin/bash
# confirm seeds: for each /tmp/mut_<P>/_out/<m>: demo passes clean, fails with patch, lib suite passes with patch
WT=${CONFIRM_WT:-/tmp/confirm}
git -C /repo worktree remove --force $WT 2>/dev/null
git -C /repo worktree add --detach $WT HEAD >/dev/null 2>&1
cd $WT
export CARGO_NET_OFFLINE=true
for d in "$@"; do
  name=$(echo $d | sed 's|/tmp/mut_||; s|/_out/|_|')
  git checkout -q -- . ; rm -f tests/demo.rs; mkdir -p tests
  if ! git apply --check $d/patch.diff 2>/dev/null; then echo "$name: PATCH-DOES-NOT-APPLY"; continue; fi
  cp $d/demo.rs tests/demo.rs
  clean=$(cargo test --offline -j 6 --test demo 2>&1 | grep "test result" | head -1)
  git apply $d/patch.diff
  patched=$(cargo test --offline -j 6 --test demo 2>&1 | grep "test result" | head -1)
  lib1=$(cargo test --offline -j 6 --lib -- --test-threads 6 2>&1 | grep -E "test result|FAILED" | tr '\n' ' ')
  lib2=$(cargo test --offline -j 6 --lib -- --test-threads 6 2>&1 | grep -E "test result|FAILED" | tr '\n' ' ')
  echo "$name: CLEAN[$clean] PATCHED[$patched] LIB1[$lib1] LIB2[$lib2]"
  git checkout -q -- . ; rm -f tests/demo.rs
done
cd /; git -C /repo worktree remove --force $WT
