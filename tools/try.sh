#!/bin/bash
# usage: try.sh <patch> <suite> [tier]   -- apply, build, drive, validate, revert
set -e
git -C /repo apply $1
trap 'git -C /repo checkout -- .' EXIT
(cd /verif/harness && cargo build -q 2>&1 | grep -E "^error" -A7 || true)
rm -rf /verif/work/try_$2
/verif/harness/target/debug/vharness drive $2 ${3:-quick} 1 /verif/work/try_$2 > /dev/null
python3 /verif/work/val.py /verif/work/try_$2 2>&1 | tail -6
