#!/usr/bin/env python3
"""apply a confirmed seed to /repo, run the given checks, undo, record the outcome in /verif/seeded/<name>/"""
import json, os, shutil, subprocess, sys, time
name = sys.argv[1]            # e.g. C03_m1
checks = sys.argv[2:]
prop, m = name.split("_")
src = "/tmp/mut_%s/_out/%s" % (prop, m)
dst = "/verif/seeded/%s" % name
os.makedirs(dst, exist_ok=True)
for f in ("patch.diff", "demo.rs", "meta.json"):
    if os.path.exists(os.path.join(src, f)):
        shutil.copy(os.path.join(src, f), os.path.join(dst, f if f != "meta.json" else "agent_meta.json"))
assert subprocess.run(["git", "-C", "/repo", "status", "--porcelain", "--untracked-files=no"], capture_output=True, text=True).stdout.strip() == "", "repo dirty"
SNAP = os.environ.get("SEEDRUN_SNAP", "/verif/work/snap")   # SEEDRUN_SNAP + SEEDRUN_OUT: run against another snapshot, results elsewhere
if not os.path.exists(SNAP + "/.ready"):
    os.makedirs(SNAP, exist_ok=True)
    subprocess.run(["rsync", "-a", "--delete", "--exclude", "work", "--exclude", "harness/target", "--exclude", ".git", "--exclude", "replays", "/verif/", SNAP + "/"], check=True)
    open(SNAP + "/.ready", "w").write("x")
res = {}
try:
    subprocess.run(["git", "-C", "/repo", "apply", os.path.join(dst, "patch.diff")], check=True)
    for c in checks:
        t0 = time.time()
        p = subprocess.run(["./check", "run", c, "--tier", "quick"], cwd=SNAP, capture_output=True, text=True)
        viol = [l for l in p.stdout.splitlines() if l.startswith("VIOLATION") or l.startswith("   class=")]
        res[c] = dict(exit=p.returncode, violations=viol[:8], wall_s=round(time.time() - t0), tail=p.stdout.splitlines()[-1:] )
finally:
    subprocess.run(["git", "-C", "/repo", "checkout", "--", "."], check=True)
am = {}
try:
    am = json.load(open(os.path.join(dst, "agent_meta.json")))
except Exception:
    pass
conf = [l for l in open("/verif/work/confirm.log") if l.startswith(name + ":")] if os.path.exists("/verif/work/confirm.log") else []
meta = dict(seed=name, property=prop, summary=am.get("summary"), needs_to_manifest=am.get("needs_to_manifest"), files=am.get("files"),
            confirmed_by_me=conf[-1].strip() if conf else None,
            ran=["git -C /repo apply patch.diff; ./check run %s --tier quick; git -C /repo checkout -- ." % c for c in checks],
            results=res, detected=any(r["exit"] == 1 for r in res.values()))
if os.environ.get("SEEDRUN_OUT"):
    os.makedirs(os.environ["SEEDRUN_OUT"], exist_ok=True)
    json.dump(meta, open(os.path.join(os.environ["SEEDRUN_OUT"], name + ".json"), "w"), indent=1)
else:
    json.dump(meta, open(os.path.join(dst, "meta.json"), "w"), indent=1)
os.remove(os.path.join(dst, "agent_meta.json")) if os.path.exists(os.path.join(dst, "agent_meta.json")) else None
print(name, "DETECTED" if meta["detected"] else "MISSED", {c: r["exit"] for c, r in res.items()})
