from fractions import Fraction as F
def dec(n,es,p):
    if p==0: return F(0)
    if p==1<<(n-1): return None
    s=p>>(n-1)
    if s: p=(-p)&((1<<n)-1)
    bits=[(p>>i)&1 for i in range(n-2,-1,-1)]
    r0=bits[0]; run=0
    while run<len(bits) and bits[run]==r0: run+=1
    k=run-1 if r0 else -run
    rest=bits[run+1:]
    e=0
    for i in range(es):
        e=e*2+(rest[i] if i<len(rest) else 0)
    fr=rest[es:]
    f=F(1)
    for i,b in enumerate(fr): f+=F(b,2**(i+1))
    v=f*F(2)**(k*2**es+e)
    return -v if s else v
def enc(n,es,x):
    # round x (Fraction) to posit: brute via (n+1)-bit boundaries using monotone search
    if x==0: return 0
    s=x<0; ax=-x if s else x
    lo,hi=1,(1<<(n-1))-1
    if ax>=dec(n,es,hi): r=hi
    elif ax<=dec(n,es,1): r=1
    else:
        # find largest p with value<=ax
        a,b=1,hi
        while a<b:
            m=(a+b+1)//2
            if dec(n,es,m)<=ax: a=m
            else: b=m-1
        p=a
        if dec(n,es,p)==ax: r=p
        else:
            mid=dec(n+1,es,2*p+1)
            if ax<mid: r=p
            elif ax>mid: r=p+1
            else: r=p if p%2==0 else p+1
    return (-r)&((1<<n)-1) if s else r
if __name__=="__main__":
    import sys
    n,es=32,2
    a,b,c=0x815fffff,0x28000000,0x823fffff
    x=dec(n,es,a)*dec(n,es,b)+dec(n,es,c)
    print(hex(enc(n,es,x)), float(dec(n,es,a)),float(dec(n,es,b)),float(dec(n,es,c)),float(x))
