import sys, json, importlib.machinery, importlib.util
sys.path.insert(0,'/verif/lib')
loader = importlib.machinery.SourceFileLoader('check', '/verif/check')
spec = importlib.util.spec_from_loader('check', loader); C = importlib.util.module_from_spec(spec); loader.exec_module(C)
import findings
import os; d=os.path.abspath(sys.argv[1])
res=C.validate_dir(d,'val')
cls={}
for r in res:
    if r['mismatches']:
        lines=open(r['shard']).read().splitlines()
        for idx,diag in r['mismatches']:
            ev=json.loads(lines[idx-1]); v=dict(event=ev,diag=diag)
            cls.setdefault(findings.class_key(v),[]).append(v)
print('states',sum(r['states'] for r in res))
for k,vs in sorted(cls.items()):
    print(len(vs),k, vs[0]['diag'][:100], findings.pretty(vs[0]['event'])[:260])
