"""setup and selftest"""
import json
import os
import shutil
import subprocess


def main(C):
    C.build_classes()
    for f in sorted(os.listdir(C.SPEC)):
        if f.endswith(".tla"):
            p = subprocess.run(["java", "-cp", C.TLAJAR + ":" + C.CMJAR, "tla2sany.SANY", f], cwd=C.SPEC,
                               stdout=subprocess.PIPE, stderr=subprocess.STDOUT, text=True)
            if p.returncode != 0 or "*** Errors" in p.stdout or "Fatal" in p.stdout:
                C.log("SANY failed on", f)
                C.log(p.stdout[-2000:])
                return 2
    C.build_harness(("dev", "release"))
    return selftest(C)


def selftest(C):
    """demonstrate the binding: corrupted traces must be rejected, an intact one accepted,
    and the Java BigNat override must agree with the pure TLA+ definitions"""
    C.build_classes()
    bins = C.build_harness(("dev",))
    d = os.path.join(C.WORK, "selftest")
    shutil.rmtree(d, ignore_errors=True)
    os.makedirs(d)
    C.sh([bins["dev"], "drive", "SELF", "quick", "7", d])
    shard = os.path.join(d, "shard_0000.ndjson")
    lines = open(shard).read().splitlines()
    r = C.validate_shard(shard, os.path.join(C.WORK, "md", "self0"))
    if r["mismatches"]:
        C.log("selftest: intact trace has mismatches (defects in the tree are reported by the checks, "
              "selftest only needs the corruption deltas):", len(r["mismatches"]))
    base = set(i for i, _ in r["mismatches"])
    ok = True
    # (i) flip one result bit
    import random
    rnd = random.Random(1)
    cands = [i for i, l in enumerate(lines) if '"r":[' in l and '"o":"ok"' in l and (i + 1) not in base and '"d":' not in l]
    picks = rnd.sample(cands, min(5, len(cands)))
    mut = list(lines)
    for i in picks:
        ev = json.loads(mut[i])
        rr = ev["r"]
        if isinstance(rr, list):
            if rr:
                rr[0] ^= 1
                while rr and rr[-1] == 0:
                    rr.pop()
            else:
                rr = [1]
            ev["r"] = rr
        mut[i] = json.dumps(ev, separators=(",", ":"))
    p1 = os.path.join(d, "corrupt_result.ndjson")
    open(p1, "w").write("\n".join(mut) + "\n")
    r1 = C.validate_shard(p1, os.path.join(C.WORK, "md", "self1"))
    got = set(i for i, _ in r1["mismatches"]) - base
    want = set(i + 1 for i in picks)
    if got != want:
        C.log("selftest FAILED: flipped result bits at", sorted(want), "rejected at", sorted(got))
        ok = False
    # (ii) drop an event that writes a register later read (dataflow integrity)
    drop = None
    for i, l in enumerate(lines):
        if '"d":' in l and '"op":"load"' not in l and '"o":"ok"' in l:
            ev = json.loads(l)
            dreg = ev["d"]
            # find a later reader before the next reset
            for j in range(i + 1, len(lines)):
                if '"op":"reset"' in lines[j]:
                    break
                e2 = json.loads(lines[j])
                if e2.get("d") == dreg and dreg not in (e2.get("ra"), e2.get("rb"), e2.get("rc")):
                    break
                if dreg in (e2.get("ra"), e2.get("rb"), e2.get("rc")):
                    if json.loads(lines[i]).get("r") != None:
                        drop = (i, j)
                    break
            if drop:
                break
    if drop:
        mut = [l for k, l in enumerate(lines) if k != drop[0]]
        p2 = os.path.join(d, "dropped_event.ndjson")
        open(p2, "w").write("\n".join(mut) + "\n")
        r2 = C.validate_shard(p2, os.path.join(C.WORK, "md", "self2"))
        if not any("operands-do-not-match" in dg for _, dg in r2["mismatches"]):
            C.log("selftest FAILED: dropped event", drop, "not detected")
            ok = False
    else:
        C.log("selftest: no droppable event found")
        ok = False
    # (iii) a panic outcome for a total operation must be rejected
    mut = list(lines)
    i = cands[0]
    ev = json.loads(mut[i])
    ev.pop("r", None)
    ev.pop("d", None)
    ev["o"] = "panic"
    ev["msg"] = "selftest"
    ev["loc"] = "selftest:0"
    mut[i] = json.dumps(ev, separators=(",", ":"))
    p3 = os.path.join(d, "panic_event.ndjson")
    open(p3, "w").write("\n".join(mut) + "\n")
    r3 = C.validate_shard(p3, os.path.join(C.WORK, "md", "self3"))
    if (i + 1) not in set(k for k, _ in r3["mismatches"]):
        C.log("selftest FAILED: panic event accepted")
        ok = False
    # (iv) pure TLA+ BigNat (no Java override) gives the same verdicts on a short trace
    short = os.path.join(d, "short.ndjson")
    open(short, "w").write("\n".join(lines[:400]) + "\n")
    rf = C.validate_shard(short, os.path.join(C.WORK, "md", "self4"))
    rc, out, gen, dist = C.run_tlc("Trace.tla", "Trace.cfg", os.path.join(C.WORK, "md", "self5"), env={"TRACE": short}, fast=False, timeout=1800)
    pm = [int(m.group(1)) for m in (C.MISM_RE.match(x) for x in C.tlc_tuples(out)) if m]
    if dist != 401 or pm != [i for i, _ in rf["mismatches"]]:
        C.log("selftest FAILED: pure-TLA+ run disagrees with override run", dist, pm, rf["mismatches"])
        ok = False
    C.log("selftest", "ok" if ok else "FAILED")
    return 0 if ok else 2
