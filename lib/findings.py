"""Known-findings protocol: a violation is *known* only if property, type, op, width, failure
mode (for panics: the source location) and a named input predicate all match an entry of
/verif/known_findings.json.  The file is read-only at run time."""
import json
import os
import re

VERIF = os.path.dirname(os.path.dirname(os.path.abspath(__file__)))


def L(v):
    if isinstance(v, list):
        return sum(d << (15 * i) for i, d in enumerate(v))
    return v


def mode_of(v):
    ev = v["event"]
    if v.get("mode"):
        return v["mode"]
    if ev.get("o") == "panic":
        return "panic@" + ev.get("loc", "?")
    if ev.get("o") == "timeout":
        return "timeout"
    if "operands-do-not-match" in v.get("diag", ""):
        return "trace_integrity"
    return "wrong_result"


def class_key(v):
    ev = v["event"]
    t = ev.get("t", "?")
    if "n" in ev and t in ("x1", "x2"):
        t = "%s<%s>" % (t, ev["n"])
    return "%s.%s/%s %s" % (t, ev.get("op", "?"), ev.get("sp", "?"), mode_of(v))


def pretty(ev):
    out = {}
    for k, val in ev.items():
        if isinstance(val, list) and all(isinstance(d, int) for d in val):
            out[k] = hex(L(val))
        else:
            out[k] = val
    return json.dumps(out)


# ---- the fixed predicate vocabulary -------------------------------------------------------
def _nar(ev):
    n = {"p8": 8, "p16": 16, "p32": 32}.get(ev.get("t"), 32)
    return 1 << (n - 1)


PREDICATES = {
    "any": lambda ev: True,
    "a_is_zero": lambda ev: L(ev.get("a", [])) == 0,
    "a_is_nar": lambda ev: L(ev.get("a", [])) == _nar(ev),
    "any_operand_nar": lambda ev: any(L(ev.get(k, [1])) == _nar(ev) for k in ("a", "b", "c") if k in ev),
}


def load():
    p = os.path.join(VERIF, "known_findings.json")
    if not os.path.exists(p):
        return []
    return json.load(open(p)).get("findings", [])


def matches(f, pid, v):
    ev = v["event"]
    if f.get("property") != pid:
        return False
    if "t" in f and ev.get("t") not in f["t"]:
        return False
    if "op" in f and ev.get("op") not in f["op"]:
        return False
    if "sp" in f and ev.get("sp") not in f["sp"]:
        return False
    if "n" in f and ev.get("n") not in f["n"]:
        return False
    m = mode_of(v)
    fm = f.get("mode", "wrong_result")
    if fm.startswith("panic@"):
        if m != fm:
            return False
    elif fm == "panic":
        if not m.startswith("panic@"):
            return False
    elif m != fm:
        return False
    if "max_excess" in f:
        # C15 only: the specification's diagnosis carries by how many encodings the stated bound is exceeded
        mm = re.search(r'"excess",\s*(\d+)', v.get("diag", ""))
        if not mm or int(mm.group(1)) > f["max_excess"]:
            return False
    if "diag_contains" in f and f["diag_contains"] not in re.sub(r"\s+", " ", v.get("diag", "")):
        # the specification's own diagnosis of the failure must carry this marker
        return False
    pred = PREDICATES.get(f.get("where", "any"))
    if pred is None:
        return False
    try:
        return bool(pred(ev))
    except Exception:
        return False


def split(pid, violations):
    fs = load()
    known, unknown = {}, []
    for v in violations:
        for f in fs:
            if matches(f, pid, v):
                known.setdefault("%s: %s" % (f.get("id", "?"), f.get("what", "")), []).append(v)
                break
        else:
            unknown.append(v)
    return known, unknown
