"""Per-property plan: which spec-level model-checking configs, which TLC generators (T1) and
which driver suites (T2) decide the property."""

ASSUMPTIONS = [
    "TLC 1.8 evaluates the TLA+ specification correctly; BigNat operators run through the Java override "
    "(BigInteger) which setup/selftest cross-checks against the pure TLA+ definitions",
    "the harness calls the public API faithfully (op table in harness/src/fixed.rs, quire.rs, generic.rs)",
    "inputs explored are those enumerated/sampled by the driver and the TLC generators named in coverage; "
    "no claim for the unexplored part of 2^64-size spaces",
]

NONVALUE = lambda v: True

PLAN = {
    "C01": dict(
        suites=["C01"], mc=["MCRound"], gen=["GenP8"],
        rule="driver: all 2^16 P8E0 pairs x 4 ops; for P16E1/P32E2 specials x lattice, lattice pairs with directed "
             "partners (cancellation, half-ulp ties, nearby scales), uniform random pairs, 8-register dataflow programs; "
             "distinct = distinct (type, op, operands); non-trivial = no operand is zero or NaR",
    ),
}
