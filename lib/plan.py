"""Per-property plan: which spec-level model-checking configs, which TLC generators (T1) and
which driver suites (T2) decide the property."""

ASSUMPTIONS = [
    "TLC 1.8 evaluates the TLA+ specification correctly; BigNat operators run through the Java override "
    "(BigInteger) which setup/selftest cross-checks against the pure TLA+ definitions",
    "the harness calls the public API faithfully (op table in harness/src/fixed.rs, quire.rs, generic.rs)",
    "inputs explored are those enumerated/sampled by the driver and the TLC generators named in coverage; "
    "no claim for the unexplored part of 2^64-size spaces",
]

NONVALUE = lambda v: True

PLAN = {
    "C01": dict(
        suites=["C01"], mc=["MCRound"], gen=["GenP8", "GenShapes"], t3_tests=["add", "sub", "mul", "div", "neg"],
        rule="screening: 400 000 (thorough 20 000 000) operand pairs per operator for P16E1 and P32E2 compared with the f64 and quire routes, disagreements logged and judged; driver: all 2^16 P8E0 pairs x 4 ops; for P16E1/P32E2 specials x lattice, lattice pairs with directed "
             "partners (cancellation, half-ulp ties, nearby scales), uniform random pairs, 8-register dataflow programs; "
             "distinct = distinct (type, op, operands); non-trivial = no operand is zero or NaR",
    ),
    "C02": dict(suites=["C02"], mc=["MCConv"],
        rule="driver: for each target every (N+1)-bit rounding boundary (all for P8/P16, lattice+random for P32) +-2 float ulps in f32 and f64, "
             "every posit value +-2 ulps, all IEEE exponents x significand classes, subnormals, zeros, infinities, NaNs, random; "
             "distinct = distinct (target, source float bits); non-trivial = every one (floats have no zero/NaR operand rule)"),
    "C03": dict(suites=["C03"], mc=["MCConv"], gen=["GenConv"],
        rule="driver: every P8E0 and P16E1 pattern, P32E2 lattice + random; to_f32/to_f64 (3 spellings), f64 and Display/FromStr round trips"),
    "C05": dict(suites=["C05"], mc=["MCRound"], gen=["GenFma"],
        rule="screening: 600 000 (30 000 000) triples per operation for P16E1 and P32E2 compared with the quire and f64 routes, disagreements logged and judged; driver: triples (a, b, c) with c aimed at -round(a*b) +- j ulp (cancellation), at half-ulp ties of the product, or free; "
             "all three operations; specials^3; dataflow programs"),
    "C06": dict(suites=["C06"], mc=["MCRound"],
        rule="screening: 300 000 (20 000 000) inputs for P16E1 and P32E2 compared with the f64 route, disagreements logged and judged; driver: every P8E0/P16E1 pattern; P32E2 lattice + random + perfect squares +-1 ulp"),
    "C07": dict(suites=["C07"], mc=["MCConv"], gen=["GenConv"],
        rule="driver: all i8/u8/i16/u16 values; for 32/64-bit types powers of two +-3, odd multiples of half-units at the rounding "
             "position, type bounds, the constants in the code +-2, random; to-int: all P8/P16 patterns, P32 lattice + half-integers + bounds"),
    "C08": dict(suites=["C08"], mc=["MCConv"], gen=["GenConv"],
        rule="driver: all P8/P16 source patterns; P32 lattice + every P8/P16 rounding boundary +-2 ulp as a P32 pattern + random"),
    "C09": dict(suites=["C09"], mc=["MCLaws"],
        rule="driver: every P8E0/P16E1 pattern; P32E2 lattice + every scale x {x.0, x.5, +-ulp} + random; five functions"),
    "C10": dict(suites=["C10", "C10G"], mc=["MCLaws"],
        rule="driver: all P8E0 pairs x 21 comparison/selection spellings; P16/P32 lattice pairs with neighbours, negations, random; "
             "clamp triples; every unary sign/class function on every P8/P16 pattern"),
    "C17": dict(suites=["C17"],
        rule="driver: every spelling of every forwarded operation on the same lattice inputs (validated against one spec function, hence equal)"),
    "C04": dict(suites=["C04"], mc=["MCQuire"], gen=["GenQuire"], t3_tests=["q_step", "q_round"], t3_quick=True,
        rule="driver: quire histories of length 1..64 (products and single posits, all spellings, NaR at random positions, "
             "limb-straddling / tiny / huge / cancelling terms), each observed after every step; shuffled replays of the same bag"),
    "C11": dict(suites=["C11"], mc=["MCElem"],
        rule="driver: P8E0 exp/ln on all 256 patterns; P16E1 ten functions on a seeded coset of the 65536 patterns (quick: every 8th + "
             "specials, regime boundaries, kernel thresholds +-3, random; thorough: every pattern); each result judged by TLC against "
             "a rigorous enclosure (ball arithmetic, 64 then 200 bits); distinct = distinct (type, function, input)"),
    "C15": dict(suites=["C15"], mc=["MCElem"], hook_trace=True, filter=lambda v: "out-of-domain" not in v.get("diag", ""),
        rule="screening: per function 60 000 (thorough: 3 000 000) in-domain inputs are run through the implementation and ranked by their distance from the f64 value of the function, and the worst 150 (1500) of each are logged and judged by the specification (the ranking decides nothing); driver: per function lattice, random patterns, in-domain magnitudes with random fractions, neighbourhoods of 1 and of "
             "multiples of pi/2, tiny arguments, domain edges +-3 ulp; pairs for hypot/powf; verdict = enclosure within the stated "
             "ULP bound of the result's rounding cell (sound: closed intervals), outside the documented domain nothing is demanded",
        assumptions=["powf is judged for x > 0 only (other bases are conventions); atan2(0, 0) is not judged (a convention)",
                     "documented domains taken from the crate's own tests: trig |x| < 393216, exp |x| <= 104, exp2 in [-150, 128), sinh/cosh |x| <= 88"]),
    "C19": dict(suites=["C19"],
        rule="driver: scripted RNG word streams enumerating the samplers' pre-image (all 64 P8 outcomes, all 2^18 P16 range values, "
             "P32 boundary words and a stride sweep of the 2^27 x 4 space) + StdRng streams over many seeds, through Distribution::sample "
             "and Rng::gen; every sample checked against the contract of the Sample action: real and 0 <= p < 1; "
             "distinct = distinct sample values per type, non-trivial = non-zero"),
    "C13": dict(suites=["C13"], mc=["MCRound", "MCLaws", "MCAlgo"],
        rule="driver: PxE1<N> and PxE2<N> for every N in 2..=32: all operand pairs for N <= 6 (quick) / 8 (thorough) and all triples "
             "for N <= 4, lattice pairs/triples with directed partners above; + - * / (operator and assign forms), mul_add, mul_sub, "
             "sub_product, sqrt (PxE2), round, neg; operands and results are the 32-bit left-aligned storage, the spec checks the low "
             "32-N bits of every result are zero and the N-bit value is the posit-rule rounding; lone-low-bit products / fused triples for N >= 8; "
             "screening: 8 000..40 000 (300 000..2 000 000) tuples per operation and width compared with the f64 route, disagreements logged and judged"),
    "C14": dict(suites=["C14"], mc=["MCConv"],
        rule="driver: for every N in 2..=32 and both exponent sizes: generic -> f32/f64/i32/u32/i64/u64/P8/P16/P32/other generic width "
             "(all patterns for N <= 10/12, lattice + random above); f32/f64 -> generic at every rounding boundary of the target +-1 float "
             "ulp; integers; P8 (all), P16 (stride), P32 (lattice + target boundaries) -> generic; Q32E2 histories read back as PxE2<N>"),
    "C16": dict(suites=["C16"], profiles=["dev", "release"], compare_profiles=True,
        filter=lambda v: v.get("mode") == "profile_diff" or v["event"].get("o") in ("panic", "timeout"),
        rule="driver: every public operation and spelling of P8E0/P16E1/P32E2 (arithmetic, comparisons, conversions, elementary "
             "functions, polynomials, quires, sampling) and of PxE1<N>/PxE2<N> for every N in 2..=32 on hostile operands (0, NaR, "
             "+-minpos, +-maxpos, +-1, powers of two, all-ones, type MIN/MAX integers, special floats) plus lattice and random samples; "
             "the same seeded program runs in the overflow-checked and the optimised build, both must return normally on every call "
             "(watchdog for non-termination) and produce identical traces; distinct = distinct (type, op, operands)",
        assumptions=["explicit not-implemented stubs are excluded: P32E2 sin/cos/tan for |x| >= 393216 (todo!()), PxE1::from_i64 / from_u32, "
                     "powi, log, log10, exp_m1, ln_1p, num_traits::Float::{abs_sub, integer_decode} (never called by the driver)",
                     "non-termination is observed as no progress for 10 s (the slowest legitimate call takes microseconds)"]),
    "C18": dict(suites=["C18"], mc=["MCQuire"], hook_trace=True,
        rule="driver: x.polyN(&c) for N = 1..18, 3a, 4a, coefficient forms Self and [Self; 1..4], x from {minpos, maxpos, lattice, "
             "random, near 1}, coefficients from lattice/random/zero/NaR, plus well-conditioned cases (x = 2, 1/2, -2, 1.5 with distinct "
             "small coefficients) where a mis-indexed coefficient or wrong power changes the value"),
    "C12": dict(suites=["C12"], mc=["MCQuire"],
        rule="driver: posit->quire->posit for every P8/P16 pattern and P32 lattice+random; neg/clear/bits round trip/split at states "
             "reached by random histories"),
}
