//! Op table for the fixed formats P8E0, P16E1, P32E2: every public operation, every spelling.
//! exec_*(op, spelling, operands) -> Some(results) | None (= no such op/spelling).
//! Spellings: "m" inherent (const) method, "o" operator / std trait, "a" op-assign,
//! "nt" num_traits facade, "f" From impl, "i" Into, "al" type alias (P8/P16/P32).
use crate::val::Val;
use core::cmp::Ordering;
use softposit::*;

fn ord(o: Ordering) -> Val {
    Val::I(match o {
        Ordering::Less => -1,
        Ordering::Equal => 0,
        Ordering::Greater => 1,
    })
}
fn cls(c: core::num::FpCategory) -> Val {
    use core::num::FpCategory::*;
    Val::S(
        match c {
            Zero => "zero",
            Nan => "nan",
            Normal => "normal",
            Infinite => "inf",
            Subnormal => "sub",
        }
        .to_string(),
    )
}

macro_rules! fixed_exec {
    ($fname:ident, $T:ty, $A:ty, $U:ty, $S:ty, $p:ident, $rp:ident, { $($extra:tt)* }) => {
        #[allow(unreachable_patterns)]
        pub fn $fname(op: &str, sp: &str, x: &[u64]) -> Option<Vec<Val>> {
            use num_traits::{Float, FloatConst, FromPrimitive, One, Signed, ToPrimitive, Zero, Bounded};
            let p = |i: usize| <$T>::from_bits(x[i] as $U);
            let $p = p;
            let rp = |v: $T| Some(vec![Val::U(v.to_bits() as u64)]);
            let $rp = rp;
            let rb = |v: bool| Some(vec![Val::B(v)]);
            let ru = |v: u64| Some(vec![Val::U(v)]);
            match (op, sp) {
                // ---- C01 / C17 arithmetic
                ("add", "m") => rp(<$T>::add(p(0), p(1))),
                ("sub", "m") => rp(<$T>::sub(p(0), p(1))),
                ("mul", "m") => rp(<$T>::mul(p(0), p(1))),
                ("div", "m") => rp(<$T>::div(p(0), p(1))),
                ("rem", "m") => rp(<$T>::rem(p(0), p(1))),
                ("add", "o") => rp(p(0) + p(1)),
                ("sub", "o") => rp(p(0) - p(1)),
                ("mul", "o") => rp(p(0) * p(1)),
                ("div", "o") => rp(p(0) / p(1)),
                ("rem", "o") => rp(p(0) % p(1)),
                ("add", "a") => { let mut a = p(0); a += p(1); rp(a) }
                ("sub", "a") => { let mut a = p(0); a -= p(1); rp(a) }
                ("mul", "a") => { let mut a = p(0); a *= p(1); rp(a) }
                ("div", "a") => { let mut a = p(0); a /= p(1); rp(a) }
                ("rem", "a") => { let mut a = p(0); a %= p(1); rp(a) }
                ("add", "al") => { let a: $A = p(0); let b: $A = p(1); rp(a + b) }
                ("mul", "al") => { let a: $A = p(0); let b: $A = p(1); rp(a * b) }
                ("neg", "m") => rp(<$T>::neg(p(0))),
                ("neg", "o") => rp(-p(0)),
                ("recip", "m") => rp(<$T>::recip(p(0))),
                ("recip", "nt") => rp(Float::recip(p(0))),
                ("div_euclid", "m") => rp(p(0).div_euclid(p(1))),
                ("rem_euclid", "m") => rp(p(0).rem_euclid(p(1))),
                // ---- C05
                ("mul_add", "m") => rp(<$T>::mul_add(p(0), p(1), p(2))),
                ("mul_add", "nt") => rp(Float::mul_add(p(0), p(1), p(2))),
                ("mul_sub", "m") => rp(p(0).mul_sub(p(1), p(2))),
                ("sub_product", "m") => rp(p(0).sub_product(p(1), p(2))),
                // ---- C06
                ("sqrt", "m") => rp(<$T>::sqrt(p(0))),
                ("sqrt", "nt") => rp(Float::sqrt(p(0))),
                // ---- C09
                ("round", "m") => rp(<$T>::round(p(0))),
                ("floor", "m") => rp(<$T>::floor(p(0))),
                ("ceil", "m") => rp(<$T>::ceil(p(0))),
                ("trunc", "m") => rp(<$T>::trunc(p(0))),
                ("fract", "m") => rp(<$T>::fract(p(0))),
                ("round", "nt") => rp(Float::round(p(0))),
                ("floor", "nt") => rp(Float::floor(p(0))),
                ("ceil", "nt") => rp(Float::ceil(p(0))),
                ("trunc", "nt") => rp(Float::trunc(p(0))),
                ("fract", "nt") => rp(Float::fract(p(0))),
                // ---- C10
                ("eq", "m") => rb(<$T>::eq(p(0), p(1))),
                ("eq", "o") => rb(p(0) == p(1)),
                ("ne", "o") => rb(p(0) != p(1)),
                ("lt", "m") => rb(<$T>::lt(&p(0), p(1))),
                ("le", "m") => rb(<$T>::le(&p(0), p(1))),
                ("gt", "m") => rb(<$T>::gt(&p(0), p(1))),
                ("ge", "m") => rb(<$T>::ge(&p(0), p(1))),
                ("lt", "o") => rb(p(0) < p(1)),
                ("le", "o") => rb(p(0) <= p(1)),
                ("gt", "o") => rb(p(0) > p(1)),
                ("ge", "o") => rb(p(0) >= p(1)),
                ("cmp", "m") => Some(vec![ord(<$T>::cmp(p(0), p(1)))]),
                ("cmp", "o") => Some(vec![ord(Ord::cmp(&p(0), &p(1)))]),
                ("partial_cmp", "o") => Some(vec![match PartialOrd::partial_cmp(&p(0), &p(1)) { Some(o) => ord(o), None => Val::I(2) }]),
                ("min", "m") => rp(<$T>::min(p(0), p(1))),
                ("max", "m") => rp(<$T>::max(p(0), p(1))),
                ("min", "o") => rp(Ord::min(p(0), p(1))),
                ("max", "o") => rp(Ord::max(p(0), p(1))),
                ("min", "nt") => rp(Float::min(p(0), p(1))),
                ("max", "nt") => rp(Float::max(p(0), p(1))),
                ("clamp", "m") => rp(<$T>::clamp(p(0), p(1), p(2))),
                ("clamp", "o") => rp(Ord::clamp(p(0), p(1), p(2))),
                ("abs", "m") => rp(<$T>::abs(p(0))),
                ("abs", "nt") => rp(Float::abs(p(0))),
                ("abs", "sg") => rp(Signed::abs(&p(0))),
                ("signum", "m") => rp(<$T>::signum(p(0))),
                ("signum", "nt") => rp(Float::signum(p(0))),
                ("signum", "sg") => rp(Signed::signum(&p(0))),
                ("copysign", "m") => rp(<$T>::copysign(p(0), p(1))),
                ("is_zero", "m") => rb(<$T>::is_zero(p(0))),
                ("is_zero", "nt") => rb(Zero::is_zero(&p(0))),
                ("is_one", "nt") => rb(One::is_one(&p(0))),
                ("is_nar", "m") => rb(p(0).is_nar()),
                ("is_nan", "m") => rb(<$T>::is_nan(p(0))),
                ("is_nan", "nt") => rb(Float::is_nan(p(0))),
                ("is_infinite", "m") => rb(<$T>::is_infinite(p(0))),
                ("is_infinite", "nt") => rb(Float::is_infinite(p(0))),
                ("is_finite", "m") => rb(<$T>::is_finite(p(0))),
                ("is_finite", "nt") => rb(Float::is_finite(p(0))),
                ("is_normal", "m") => rb(<$T>::is_normal(p(0))),
                ("is_normal", "nt") => rb(Float::is_normal(p(0))),
                ("is_sign_positive", "m") => rb(<$T>::is_sign_positive(p(0))),
                ("is_sign_negative", "m") => rb(<$T>::is_sign_negative(p(0))),
                ("is_sign_positive", "nt") => rb(Float::is_sign_positive(p(0))),
                ("is_sign_negative", "nt") => rb(Float::is_sign_negative(p(0))),
                ("is_positive", "sg") => rb(Signed::is_positive(&p(0))),
                ("is_negative", "sg") => rb(Signed::is_negative(&p(0))),
                ("abs_sub", "sg") => rp(Signed::abs_sub(&p(0), &p(1))),
                ("classify", "m") => Some(vec![cls(<$T>::classify(p(0)))]),
                ("classify", "nt") => Some(vec![cls(Float::classify(p(0)))]),
                // constants
                ("const", _) => rp(match sp {
                    "ZERO" => <$T>::ZERO, "ONE" => <$T>::ONE, "NAR" => <$T>::NAR, "NAN" => <$T>::NAN,
                    "INFINITY" => <$T>::INFINITY, "MAX" => <$T>::MAX, "MIN" => <$T>::MIN,
                    "MIN_POSITIVE" => <$T>::MIN_POSITIVE, "EPSILON" => <$T>::EPSILON,
                    "nt_zero" => <$T as Zero>::zero(), "nt_one" => <$T as One>::one(),
                    "nt_nan" => <$T as Float>::nan(), "nt_infinity" => <$T as Float>::infinity(),
                    "nt_neg_infinity" => <$T as Float>::neg_infinity(), "nt_neg_zero" => <$T as Float>::neg_zero(),
                    "nt_min_value" => <$T as Float>::min_value(), "nt_max_value" => <$T as Float>::max_value(),
                    "nt_min_positive_value" => <$T as Float>::min_positive_value(),
                    "b_min_value" => <$T as Bounded>::min_value(), "b_max_value" => <$T as Bounded>::max_value(),
                    "default" => <$T>::default(),
                    _ => return None,
                }),
                ("mathconst", _) => {
                    let (m, f): ($T, $T) = match sp {
                        "E" => (MathConsts::E, FloatConst::E()),
                        "FRAC_1_PI" => (MathConsts::FRAC_1_PI, FloatConst::FRAC_1_PI()),
                        "FRAC_1_SQRT_2" => (MathConsts::FRAC_1_SQRT_2, FloatConst::FRAC_1_SQRT_2()),
                        "FRAC_2_PI" => (MathConsts::FRAC_2_PI, FloatConst::FRAC_2_PI()),
                        "FRAC_2_SQRT_PI" => (MathConsts::FRAC_2_SQRT_PI, FloatConst::FRAC_2_SQRT_PI()),
                        "FRAC_PI_2" => (MathConsts::FRAC_PI_2, FloatConst::FRAC_PI_2()),
                        "FRAC_PI_3" => (MathConsts::FRAC_PI_3, FloatConst::FRAC_PI_3()),
                        "FRAC_PI_4" => (MathConsts::FRAC_PI_4, FloatConst::FRAC_PI_4()),
                        "FRAC_PI_6" => (MathConsts::FRAC_PI_6, FloatConst::FRAC_PI_6()),
                        "FRAC_PI_8" => (MathConsts::FRAC_PI_8, FloatConst::FRAC_PI_8()),
                        "LN_10" => (MathConsts::LN_10, FloatConst::LN_10()),
                        "LN_2" => (MathConsts::LN_2, FloatConst::LN_2()),
                        "LOG10_E" => (MathConsts::LOG10_E, FloatConst::LOG10_E()),
                        "LOG2_E" => (MathConsts::LOG2_E, FloatConst::LOG2_E()),
                        "PI" => (MathConsts::PI, FloatConst::PI()),
                        "SQRT_2" => (MathConsts::SQRT_2, FloatConst::SQRT_2()),
                        _ => return None,
                    };
                    Some(vec![Val::U(m.to_bits() as u64), Val::U(f.to_bits() as u64)])
                }
                // ---- C02 float -> posit (x[0] = IEEE bits)
                ("from_f32", "m") => rp(<$T>::from_f32(f32::from_bits(x[0] as u32))),
                ("from_f64", "m") => rp(<$T>::from_f64(f64::from_bits(x[0]))),
                ("from_f32", "f") => rp(<$T as From<f32>>::from(f32::from_bits(x[0] as u32))),
                ("from_f64", "f") => rp(<$T as From<f64>>::from(f64::from_bits(x[0]))),
                ("from_f32", "i") => { let v: $T = f32::from_bits(x[0] as u32).into(); rp(v) }
                ("from_f64", "i") => { let v: $T = f64::from_bits(x[0]).into(); rp(v) }
                ("from_f32", "nt") => rp(<$T as FromPrimitive>::from_f32(f32::from_bits(x[0] as u32)).unwrap()),
                ("from_f64", "nt") => rp(<$T as FromPrimitive>::from_f64(f64::from_bits(x[0])).unwrap()),
                ("from_f64", "nc") => rp(<$T as num_traits::NumCast>::from(f64::from_bits(x[0])).unwrap()),
                // ---- C03 posit -> float
                ("to_f32", "m") => ru(p(0).to_f32().to_bits() as u64),
                ("to_f64", "m") => ru(p(0).to_f64().to_bits()),
                ("to_f32", "f") => ru(f32::from(p(0)).to_bits() as u64),
                ("to_f64", "f") => ru(f64::from(p(0)).to_bits()),
                ("to_f64", "nt") => ru(ToPrimitive::to_f64(&p(0)).unwrap().to_bits()),
                // Display / FromStr round trip: result = parse(to_string(p))
                ("str_roundtrip", "m") => { let s = format!("{}", p(0)); match s.parse::<$T>() { Ok(q) => rp(q), Err(_) => panic!("text round trip: the printed form does not parse back") } }
                ("f64_roundtrip", "m") => rp(<$T>::from(f64::from(p(0)))),
                // ---- C07 integers (two's complement image in x[0])
                ("from_i8", "m") => rp(<$T>::from_i8(x[0] as i8)),
                ("from_i16", "m") => rp(<$T>::from_i16(x[0] as i16)),
                ("from_i32", "m") => rp(<$T>::from_i32(x[0] as i32)),
                ("from_i64", "m") => rp(<$T>::from_i64(x[0] as i64)),
                ("from_isize", "m") => rp(<$T>::from_isize(x[0] as isize)),
                ("from_u8", "m") => rp(<$T>::from_u8(x[0] as u8)),
                ("from_u16", "m") => rp(<$T>::from_u16(x[0] as u16)),
                ("from_u32", "m") => rp(<$T>::from_u32(x[0] as u32)),
                ("from_u64", "m") => rp(<$T>::from_u64(x[0])),
                ("from_usize", "m") => rp(<$T>::from_usize(x[0] as usize)),
                ("from_i8", "f") => rp(<$T as From<i8>>::from(x[0] as i8)),
                ("from_i16", "f") => rp(<$T as From<i16>>::from(x[0] as i16)),
                ("from_i32", "f") => rp(<$T as From<i32>>::from(x[0] as i32)),
                ("from_i64", "f") => rp(<$T as From<i64>>::from(x[0] as i64)),
                ("from_isize", "f") => rp(<$T as From<isize>>::from(x[0] as isize)),
                ("from_u8", "f") => rp(<$T as From<u8>>::from(x[0] as u8)),
                ("from_u16", "f") => rp(<$T as From<u16>>::from(x[0] as u16)),
                ("from_u32", "f") => rp(<$T as From<u32>>::from(x[0] as u32)),
                ("from_u64", "f") => rp(<$T as From<u64>>::from(x[0])),
                ("from_usize", "f") => rp(<$T as From<usize>>::from(x[0] as usize)),
                ("from_i8", "nt") => rp(<$T as FromPrimitive>::from_i8(x[0] as i8).unwrap()),
                ("from_i16", "nt") => rp(<$T as FromPrimitive>::from_i16(x[0] as i16).unwrap()),
                ("from_i32", "nt") => rp(<$T as FromPrimitive>::from_i32(x[0] as i32).unwrap()),
                ("from_i64", "nt") => rp(<$T as FromPrimitive>::from_i64(x[0] as i64).unwrap()),
                ("from_u8", "nt") => rp(<$T as FromPrimitive>::from_u8(x[0] as u8).unwrap()),
                ("from_u16", "nt") => rp(<$T as FromPrimitive>::from_u16(x[0] as u16).unwrap()),
                ("from_u32", "nt") => rp(<$T as FromPrimitive>::from_u32(x[0] as u32).unwrap()),
                ("from_u64", "nt") => rp(<$T as FromPrimitive>::from_u64(x[0]).unwrap()),
                ("to_i32", "m") => ru(p(0).to_i32() as u32 as u64),
                ("to_u32", "m") => ru(p(0).to_u32() as u64),
                ("to_i64", "m") => ru(p(0).to_i64() as u64),
                ("to_u64", "m") => ru(p(0).to_u64()),
                ("to_i32", "f") => ru(i32::from(p(0)) as u32 as u64),
                ("to_u32", "f") => ru(u32::from(p(0)) as u64),
                ("to_i64", "f") => ru(i64::from(p(0)) as u64),
                ("to_u64", "f") => ru(u64::from(p(0))),
                ("to_i64", "nt") => ru(ToPrimitive::to_i64(&p(0)).unwrap() as u64),
                ("to_u64", "nt") => ru(ToPrimitive::to_u64(&p(0)).unwrap()),
                ("to_i8", "m") => ru(p(0).to_i8() as u8 as u64),
                ("to_i16", "m") => ru(p(0).to_i16() as u16 as u64),
                ("to_u8", "m") => ru(p(0).to_u8() as u64),
                ("to_u16", "m") => ru(p(0).to_u16() as u64),
                ("to_isize", "m") => ru(p(0).to_isize() as u64),
                ("to_usize", "m") => ru(p(0).to_usize() as u64),
                ("to_i8", "f") => ru(i8::from(p(0)) as u8 as u64),
                ("to_i16", "f") => ru(i16::from(p(0)) as u16 as u64),
                ("to_u8", "f") => ru(u8::from(p(0)) as u64),
                ("to_u16", "f") => ru(u16::from(p(0)) as u64),
                ("to_isize", "f") => ru(isize::from(p(0)) as u64),
                ("to_usize", "f") => ru(usize::from(p(0)) as u64),
                // ---- C08 posit <-> posit
                ("to_p8", "f") => Some(vec![Val::U(P8E0::from(p(0)).to_bits() as u64)]),
                ("to_p16", "f") => Some(vec![Val::U(P16E1::from(p(0)).to_bits() as u64)]),
                ("to_p32", "f") => Some(vec![Val::U(P32E2::from(p(0)).to_bits() as u64)]),
                ("to_p8", "i") => { let q: P8E0 = p(0).into(); Some(vec![Val::U(q.to_bits() as u64)]) }
                ("to_p16", "i") => { let q: P16E1 = p(0).into(); Some(vec![Val::U(q.to_bits() as u64)]) }
                ("to_p32", "i") => { let q: P32E2 = p(0).into(); Some(vec![Val::U(q.to_bits() as u64)]) }
                // raw
                ("new", "m") => rp(<$T>::new(x[0] as $S)),
                $($extra)*
                _ => None,
            }
        }
    };
}

fixed_exec!(exec_p8, P8E0, P8, u8, i8, p, rp, {
    ("to_p8", "m") => rp(p(0)),
    ("to_p16", "m") => Some(vec![Val::U(P16E1::from_p8e0(p(0)).to_bits() as u64)]),
    ("to_p32", "m") => Some(vec![Val::U(P32E2::from_p8e0(p(0)).to_bits() as u64)]),
    ("exp", "m") => rp(<P8E0>::exp(p(0))),
    ("ln", "m") => rp(<P8E0>::ln(p(0))),
    ("exp", "nt") => rp(Float::exp(p(0))),
    ("ln", "nt") => rp(Float::ln(p(0))),
    ("asinh", "m") => rp(<P8E0>::asinh(p(0))),
    ("acosh", "m") => rp(<P8E0>::acosh(p(0))),
});

fixed_exec!(exec_p16, P16E1, P16, u16, i16, p, rp, {
    ("to_p16", "m") => rp(p(0)),
    ("to_p8", "m") => Some(vec![Val::U(P8E0::from_p16e1(p(0)).to_bits() as u64)]),
    ("to_p32", "m") => Some(vec![Val::U(P32E2::from_p16e1(p(0)).to_bits() as u64)]),
    ("exp", "m") => rp(<P16E1>::exp(p(0))),
    ("exp2", "m") => rp(<P16E1>::exp2(p(0))),
    ("ln", "m") => rp(<P16E1>::ln(p(0))),
    ("log2", "m") => rp(<P16E1>::log2(p(0))),
    ("sin_pi", "m") => rp(p(0).sin_pi()),
    ("cos_pi", "m") => rp(p(0).cos_pi()),
    ("tan_pi", "m") => rp(p(0).tan_pi()),
    ("asin_pi", "m") => rp(p(0).asin_pi()),
    ("acos_pi", "m") => rp(p(0).acos_pi()),
    ("atan_pi", "m") => rp(p(0).atan_pi()),
    ("exp", "nt") => rp(Float::exp(p(0))),
    ("exp2", "nt") => rp(Float::exp2(p(0))),
    ("ln", "nt") => rp(Float::ln(p(0))),
    ("log2", "nt") => rp(Float::log2(p(0))),
    ("asinh", "m") => rp(<P16E1>::asinh(p(0))),
    ("acosh", "m") => rp(<P16E1>::acosh(p(0))),
    ("to_degrees", "m") => rp(<P16E1>::to_degrees(p(0))),
    ("to_radians", "m") => rp(<P16E1>::to_radians(p(0))),
});

fixed_exec!(exec_p32, P32E2, P32, u32, i32, p, rp, {
    ("to_p32", "m") => rp(p(0)),
    ("to_p8", "m") => Some(vec![Val::U(P8E0::from_p32e2(p(0)).to_bits() as u64)]),
    ("to_p16", "m") => Some(vec![Val::U(P16E1::from_p32e2(p(0)).to_bits() as u64)]),
    ("sin", "m") => rp(<P32E2>::sin(p(0))),
    ("cos", "m") => rp(<P32E2>::cos(p(0))),
    ("tan", "m") => rp(<P32E2>::tan(p(0))),
    ("asin", "m") => rp(<P32E2>::asin(p(0))),
    ("acos", "m") => rp(<P32E2>::acos(p(0))),
    ("atan", "m") => rp(<P32E2>::atan(p(0))),
    ("atan2", "m") => rp(<P32E2>::atan2(p(0), p(1))),
    ("ln", "m") => rp(<P32E2>::ln(p(0))),
    ("log2", "m") => rp(<P32E2>::log2(p(0))),
    ("exp", "m") => rp(<P32E2>::exp(p(0))),
    ("exp2", "m") => rp(<P32E2>::exp2(p(0))),
    ("exp10", "m") => rp(<P32E2>::exp10(p(0))),
    ("sinh", "m") => rp(<P32E2>::sinh(p(0))),
    ("cosh", "m") => rp(<P32E2>::cosh(p(0))),
    ("tanh", "m") => rp(<P32E2>::tanh(p(0))),
    ("asinh", "m") => rp(<P32E2>::asinh(p(0))),
    ("acosh", "m") => rp(<P32E2>::acosh(p(0))),
    ("cbrt", "m") => rp(<P32E2>::cbrt(p(0))),
    ("hypot", "m") => rp(<P32E2>::hypot(p(0), p(1))),
    ("powf", "m") => rp(<P32E2>::powf(p(0), p(1))),
    ("sin_cos", "m") => { let (s, c) = <P32E2>::sin_cos(p(0)); Some(vec![Val::U(s.to_bits() as u64), Val::U(c.to_bits() as u64)]) }
    ("sin", "nt") => rp(Float::sin(p(0))),
    ("cos", "nt") => rp(Float::cos(p(0))),
    ("tan", "nt") => rp(Float::tan(p(0))),
    ("asin", "nt") => rp(Float::asin(p(0))),
    ("acos", "nt") => rp(Float::acos(p(0))),
    ("atan", "nt") => rp(Float::atan(p(0))),
    ("atan2", "nt") => rp(Float::atan2(p(0), p(1))),
    ("ln", "nt") => rp(Float::ln(p(0))),
    ("log2", "nt") => rp(Float::log2(p(0))),
    ("exp", "nt") => rp(Float::exp(p(0))),
    ("exp2", "nt") => rp(Float::exp2(p(0))),
    ("sinh", "nt") => rp(Float::sinh(p(0))),
    ("cosh", "nt") => rp(Float::cosh(p(0))),
    ("tanh", "nt") => rp(Float::tanh(p(0))),
    ("cbrt", "nt") => rp(Float::cbrt(p(0))),
    ("hypot", "nt") => rp(Float::hypot(p(0), p(1))),
    ("powf", "nt") => rp(Float::powf(p(0), p(1))),
    ("to_degrees", "m") => rp(<P32E2>::to_degrees(p(0))),
    ("to_radians", "m") => rp(<P32E2>::to_radians(p(0))),
});

pub struct Ty {
    pub name: &'static str,
    pub n: u32,
    pub es: u32,
    pub exec: fn(&str, &str, &[u64]) -> Option<Vec<Val>>,
}
pub const P8T: Ty = Ty { name: "p8", n: 8, es: 0, exec: exec_p8 };
pub const P16T: Ty = Ty { name: "p16", n: 16, es: 1, exec: exec_p16 };
pub const P32T: Ty = Ty { name: "p32", n: 32, es: 2, exec: exec_p32 };
pub const FIXED: [&Ty; 3] = [&P8T, &P16T, &P32T];
