//! Polynomial evaluation: x.polyN(&c) for N = 1..18, 3a, 4a; coefficient type Self or [Self; k], k = 1..4.
use crate::drive::Ctx;
use crate::fixed::{Ty, FIXED};
use crate::gen;
use crate::guard::{guarded, set_current};
use crate::sink::{event, Outcome};
use crate::val::Val;
use rand::Rng;
use softposit::{Polynom, P16E1, P32E2, P8E0};

fn arr<const M: usize, T: Copy>(v: &[T]) -> [T; M] {
    let mut a = [v[0]; M];
    a.copy_from_slice(&v[..M]);
    a
}

macro_rules! poly_dispatch {
    ($x:expr, $deg:expr, $c:expr, $T:ty) => {
        match $deg {
            1 => Polynom::<$T>::poly1($x, &arr::<2, $T>($c)),
            2 => Polynom::<$T>::poly2($x, &arr::<3, $T>($c)),
            3 => Polynom::<$T>::poly3($x, &arr::<4, $T>($c)),
            4 => Polynom::<$T>::poly4($x, &arr::<5, $T>($c)),
            5 => Polynom::<$T>::poly5($x, &arr::<6, $T>($c)),
            6 => Polynom::<$T>::poly6($x, &arr::<7, $T>($c)),
            7 => Polynom::<$T>::poly7($x, &arr::<8, $T>($c)),
            8 => Polynom::<$T>::poly8($x, &arr::<9, $T>($c)),
            9 => Polynom::<$T>::poly9($x, &arr::<10, $T>($c)),
            10 => Polynom::<$T>::poly10($x, &arr::<11, $T>($c)),
            11 => Polynom::<$T>::poly11($x, &arr::<12, $T>($c)),
            12 => Polynom::<$T>::poly12($x, &arr::<13, $T>($c)),
            13 => Polynom::<$T>::poly13($x, &arr::<14, $T>($c)),
            14 => Polynom::<$T>::poly14($x, &arr::<15, $T>($c)),
            15 => Polynom::<$T>::poly15($x, &arr::<16, $T>($c)),
            16 => Polynom::<$T>::poly16($x, &arr::<17, $T>($c)),
            17 => Polynom::<$T>::poly17($x, &arr::<18, $T>($c)),
            18 => Polynom::<$T>::poly18($x, &arr::<19, $T>($c)),
            33 => Polynom::<$T>::poly3a($x, &arr::<4, $T>($c)),
            44 => Polynom::<$T>::poly4a($x, &arr::<5, $T>($c)),
            _ => panic!("harness: bad degree"),
        }
    };
}

macro_rules! poly_type {
    ($fname:ident, $P:ty, $U:ty) => {
        pub fn $fname(x: u64, deg: u32, parts: usize, cs: &[Vec<u64>]) -> u64 {
            let px = <$P>::from_bits(x as $U);
            let p = |v: u64| <$P>::from_bits(v as $U);
            let r: $P = match parts {
                0 => {
                    let c: Vec<$P> = cs.iter().map(|v| p(v[0])).collect();
                    poly_dispatch!(px, deg, &c, $P)
                }
                1 => {
                    let c: Vec<[$P; 1]> = cs.iter().map(|v| [p(v[0])]).collect();
                    poly_dispatch!(px, deg, &c, [$P; 1])
                }
                2 => {
                    let c: Vec<[$P; 2]> = cs.iter().map(|v| [p(v[0]), p(v[1])]).collect();
                    poly_dispatch!(px, deg, &c, [$P; 2])
                }
                3 => {
                    let c: Vec<[$P; 3]> = cs.iter().map(|v| [p(v[0]), p(v[1]), p(v[2])]).collect();
                    poly_dispatch!(px, deg, &c, [$P; 3])
                }
                4 => {
                    let c: Vec<[$P; 4]> = cs.iter().map(|v| [p(v[0]), p(v[1]), p(v[2]), p(v[3])]).collect();
                    poly_dispatch!(px, deg, &c, [$P; 4])
                }
                _ => panic!("harness: bad parts"),
            };
            r.to_bits() as u64
        }
    };
}
poly_type!(poly_p8, P8E0, u8);
poly_type!(poly_p16, P16E1, u16);
poly_type!(poly_p32, P32E2, u32);

pub fn ncoef(deg: u32) -> usize {
    match deg {
        33 => 4,
        44 => 5,
        d => d as usize + 1,
    }
}

/// parts = 0: T = Self; 1..4: T = [Self; parts]
pub fn exec_poly(t: &str, x: u64, deg: u32, parts: usize, cs: &[Vec<u64>]) -> Option<Vec<Val>> {
    let r = match t {
        "p8" => poly_p8(x, deg, parts, cs),
        "p16" => poly_p16(x, deg, parts, cs),
        "p32" => poly_p32(x, deg, parts, cs),
        _ => return None,
    };
    Some(vec![Val::U(r)])
}

pub fn poly_event(t: &str, x: u64, deg: u32, parts: usize, cs: &[Vec<u64>]) -> String {
    let out = guarded(|| exec_poly(t, x, deg, parts, cs)).expect("poly type");
    let mut s = String::from("[");
    for (i, c) in cs.iter().enumerate() {
        if i > 0 {
            s.push(',');
        }
        s.push('[');
        for (j, p) in c.iter().enumerate() {
            if j > 0 {
                s.push(',');
            }
            Val::U(*p).json(&mut s);
        }
        s.push(']');
    }
    s.push(']');
    let extra = [("deg", deg.to_string()), ("parts", parts.to_string()), ("cs", s)];
    event("poly", t, "m", &extra, &[("a", Val::U(x))], &out)
}

const DEGS: [u32; 20] = [1, 2, 3, 4, 5, 6, 7, 8, 9, 10, 11, 12, 13, 14, 15, 16, 17, 18, 33, 44];

pub fn suite_c18(ctx: &mut Ctx) {
    for ty in FIXED {
        let lat = gen::lattice(ty.n, ty.es, &mut ctx.rng, 2);
        let reps = ctx.q(if ty.n == 32 { 400 } else { 600 }, 8000);
        for &deg in DEGS.iter() {
            for r in 0..reps {
                let parts = [0usize, 0, 0, 1, 2, 3, 4][r % 7];
                let mode = ctx.rng.gen_range(0..8);
                let x = match mode {
                    0 => 1u64,                                                   // minpos: powers saturate
                    1 => gen::mask(ty.n - 1),                                    // maxpos
                    2 => gen::random_pattern(ty.n, &mut ctx.rng),
                    3 => gen::from_scale(ty.n, ty.es, ctx.rng.gen_range(-3..3), ctx.rng.gen::<u64>()),
                    _ => lat[ctx.rng.gen_range(0..lat.len())],
                };
                let x = if mode >= 3 && ctx.rng.gen::<bool>() { gen::neg(ty.n, x) } else { x };
                let nc = ncoef(deg);
                let mut cs: Vec<Vec<u64>> = Vec::new();
                for i in 0..nc {
                    let np = parts.max(1);
                    let mut c = Vec::new();
                    for _ in 0..np {
                        let v = match ctx.rng.gen_range(0..10) {
                            0 => 0,
                            1 => gen::random_pattern(ty.n, &mut ctx.rng),
                            2 => gen::from_scale(ty.n, ty.es, ctx.rng.gen_range(-8..8), ctx.rng.gen::<u64>()),
                            3 if r % 40 == 39 && i == nc / 2 => gen::nar(ty.n),
                            _ => lat[ctx.rng.gen_range(0..lat.len())],
                        };
                        c.push(if ctx.rng.gen::<bool>() { gen::neg(ty.n, v) } else { v });
                    }
                    // each coefficient distinguishable: a mis-indexed coefficient changes the sum
                    cs.push(c);
                }
                set_current("poly", ty.name, "m", ty.n, &[x]);
                let line = poly_event(ty.name, x, deg, parts, &cs);
                ctx.sink.line(&line);
                *ctx.sink.per_op.entry(format!("{}.poly{}", ty.name, deg)).or_insert(0) += 1;
                use std::hash::{Hash, Hasher};
                let mut h = std::collections::hash_map::DefaultHasher::new();
                (ty.name, deg, x, &cs).hash(&mut h);
                if x != 0 && x != gen::nar(ty.n) {
                    ctx.sink.nontrivial.insert(h.finish());
                }
            }
        }
        // tiny x with tiny coefficients: every term lives in the lowest quire limbs (carries between them),
        // and: a large tie-forming pair of terms plus a far smaller one (sticky bits across limbs)
        let nt = ctx.q(600, 12_000);
        for r in 0..nt {
            let deg = DEGS[r % DEGS.len()];
            let nc = ncoef(deg);
            let maxs = ((ty.n - 2) << ty.es) as i32;
            let (x, cs): (u64, Vec<Vec<u64>>) = if r % 2 == 0 {
                let x = [1u64, 2, 3, gen::neg(ty.n, 1)][ (r / 2) % 4];
                let mut cs: Vec<Vec<u64>> = (0..nc).map(|_| {
                    let v = gen::from_scale(ty.n, ty.es, ctx.rng.gen_range(-maxs..-maxs / 2 + 8), ctx.rng.gen::<u64>());
                    vec![if ctx.rng.gen::<bool>() { gen::neg(ty.n, v) } else { v }]
                }).collect();
                // without a constant term the sum consists of x-multiples only: differences of tiny terms
                // (borrows and carries between the lowest limbs) become the whole result
                if (r / 2) % 2 == 0 {
                    cs[nc - 1] = vec![0];
                }
                (x, cs)
            } else if r % 4 == 3 && nc >= 3 {
                // constant big, c1 * x exactly half an ulp of it, c2 * x^2 a single dust bit at a CHOSEN distance below the
                // leading bit (63..65, 127..129, just below the rounding position, anywhere down to 200); x a power of two
                // whose square is exact
                let mut found = None;
                for _ in 0..60 {
                    let sc = ctx.rng.gen_range(-maxs / 4..maxs);
                    let big = gen::from_scale(ty.n, ty.es, sc, [0u64, u64::MAX, 1 << 63, ctx.rng.gen::<u64>()][(r / 4) % 4]);
                    let (_, s2, nf, _) = gen::decode(ty.n, ty.es, big);
                    let sx = -ctx.rng.gen_range(1..=(maxs / 2).max(1));
                    let x = gen::from_scale(ty.n, ty.es, sx, 0);
                    let (_, sxd, _, fx) = gen::decode(ty.n, ty.es, x);
                    let delta = match ctx.rng.gen_range(0..6) {
                        0 => ctx.rng.gen_range(63..=65),
                        1 => ctx.rng.gen_range(127..=129),
                        2 => nf as i32 + 2 + ctx.rng.gen_range(0..4),
                        _ => ctx.rng.gen_range(nf as i32 + 2..nf as i32 + 200),
                    };
                    let want1 = s2 - nf as i32 - 1 - sx;
                    let want2 = s2 - delta - 2 * sx;
                    if fx != 0 || sxd != sx || want1.abs() > maxs || want2.abs() > maxs {
                        continue;
                    }
                    let c1 = gen::from_scale(ty.n, ty.es, want1, 0);
                    let c2 = gen::from_scale(ty.n, ty.es, want2, 0);
                    let (_, a1, _, f1) = gen::decode(ty.n, ty.es, c1);
                    let (_, a2, _, f2) = gen::decode(ty.n, ty.es, c2);
                    // x^2 must be exact: the scale 2*sx must be representable as a power of two
                    let x2 = gen::from_scale(ty.n, ty.es, 2 * sx, 0);
                    let (_, sx2, _, fx2) = gen::decode(ty.n, ty.es, x2);
                    if a1 == want1 && f1 == 0 && a2 == want2 && f2 == 0 && sx2 == 2 * sx && fx2 == 0 {
                        found = Some((big, x, c1, c2));
                        break;
                    }
                }
                let (big, x, c1, c2) = match found { Some(t) => t, None => continue };
                let mut cs: Vec<Vec<u64>> = (0..nc).map(|_| vec![0u64]).collect();
                cs[nc - 1] = vec![big];
                cs[nc - 2] = vec![c1];
                cs[nc - 3] = vec![if ctx.rng.gen::<bool>() { gen::neg(ty.n, c2) } else { c2 }];
                if ctx.rng.gen::<bool>() {
                    for c in cs.iter_mut() {
                        c[0] = gen::neg(ty.n, c[0]);
                    }
                }
                (x, cs)
            } else {
                // the constant coefficient is big; (next coefficient) * x is exactly half an ulp of it (a tie);
                // one more coefficient times a saturated power of the tiny x is dust > 64 bits below
                let mut found = None;
                for _ in 0..40 {
                    let sc = ctx.rng.gen_range(-maxs / 4..maxs);
                    let big = gen::from_scale(ty.n, ty.es, sc, [0u64, u64::MAX, 1 << 63, ctx.rng.gen::<u64>()][(r / 2) % 4]);
                    let (_, s2, nf, _) = gen::decode(ty.n, ty.es, big);
                    let x = gen::from_scale(ty.n, ty.es, -ctx.rng.gen_range(maxs / 2..=maxs), 0);
                    let (_, sx, _, fx) = gen::decode(ty.n, ty.es, x);
                    let want = s2 - nf as i32 - 1 - sx; // scale of the coefficient with coefficient * x = half ulp
                    if fx != 0 || want > maxs || want < -maxs {
                        continue;
                    }
                    let ch = gen::from_scale(ty.n, ty.es, want, 0);
                    let (_, sh, _, fh) = gen::decode(ty.n, ty.es, ch);
                    if sh == want && fh == 0 {
                        found = Some((big, x, ch));
                        break;
                    }
                }
                let (big, x, ch) = match found { Some(t) => t, None => continue };
                let mut cs: Vec<Vec<u64>> = (0..nc).map(|_| vec![0u64]).collect();
                cs[nc - 1] = vec![big];
                cs[nc - 2] = vec![ch];
                if nc >= 3 {
                    let d = [1u64, 2, 3, gen::from_scale(ty.n, ty.es, -maxs + ctx.rng.gen_range(0..6), ctx.rng.gen::<u64>())][ctx.rng.gen_range(0..4)];
                    cs[ctx.rng.gen_range(0..nc - 2)] = vec![if ctx.rng.gen::<bool>() { gen::neg(ty.n, d) } else { d }];
                }
                if ctx.rng.gen::<bool>() {
                    for c in cs.iter_mut() {
                        c[0] = gen::neg(ty.n, c[0]);
                    }
                }
                (x, cs)
            };
            let line = poly_event(ty.name, x, deg, 0, &cs);
            ctx.sink.line(&line);
            *ctx.sink.per_op.entry(format!("{}.poly{}", ty.name, deg)).or_insert(0) += 1;
        }
        // zero times NaR: x = 0 with NaR as one coefficient (every position), x = NaR with all-zero non-constant
        // coefficients -- NaR is absorbing, whatever the other factor is
        for &deg in DEGS.iter() {
            let nc = ncoef(deg);
            let one = gen::from_scale(ty.n, ty.es, 0, 0);
            for pos in 0..nc {
                let cs: Vec<Vec<u64>> = (0..nc).map(|i| vec![if i == pos { gen::nar(ty.n) } else { one }]).collect();
                let line = poly_event(ty.name, 0, deg, 0, &cs);
                ctx.sink.line(&line);
                let cs0: Vec<Vec<u64>> = (0..nc).map(|i| vec![if i == pos { gen::nar(ty.n) } else { 0 }]).collect();
                let line = poly_event(ty.name, 0, deg, 0, &cs0);
                ctx.sink.line(&line);
            }
            let cs: Vec<Vec<u64>> = (0..nc).map(|i| vec![if i == nc - 1 { one } else { 0 }]).collect();
            let line = poly_event(ty.name, gen::nar(ty.n), deg, 0, &cs);
            ctx.sink.line(&line);
        }
        // well-conditioned small cases where a wrong index / wrong power is visible in the value:
        // x = 2, c_i = distinct small integers
        for &deg in DEGS.iter() {
            let two = gen::from_scale(ty.n, ty.es, 1, 0);
            let half = gen::from_scale(ty.n, ty.es, -1, 0);
            for x in [two, half, gen::neg(ty.n, two), gen::from_scale(ty.n, ty.es, 0, 1 << 63)] {
                let nc = ncoef(deg);
                let cs: Vec<Vec<u64>> = (0..nc).map(|i| vec![gen::from_scale(ty.n, ty.es, (i % 3) as i32 - 1, ((i as u64 * 5 + 3) % 8) << 61)]).collect();
                let line = poly_event(ty.name, x, deg, 0, &cs);
                ctx.sink.line(&line);
            }
        }
    }
    let _: Option<&Ty> = None;
    let _ = Outcome::Ok(vec![]);
}
