//! C16: totality and build-profile independence.  The same seeded program is run by the
//! overflow-checked (dev) and the optimised (release) harness; every call must return (no panic,
//! no hang) and both traces must be identical.  Inputs: "hostile" values of every type for every
//! public operation and spelling, plus lattice / random samples.
use crate::drive::Ctx;
use crate::fixed::FIXED;
use crate::gdrive::gcall;
use crate::gen;
use crate::qdrive::qcall;
use crate::quire::QAny;
use rand::Rng;

const OPS: &[(&str, usize, &[&str])] = &[
    ("add", 2, &["m", "o", "a"]), ("sub", 2, &["m", "o", "a"]), ("mul", 2, &["m", "o", "a"]), ("div", 2, &["m", "o", "a"]),
    ("rem", 2, &["m", "o", "a"]), ("div_euclid", 2, &["m"]), ("rem_euclid", 2, &["m"]), ("neg", 1, &["m", "o"]), ("recip", 1, &["m", "nt"]),
    ("mul_add", 3, &["m", "nt"]), ("mul_sub", 3, &["m"]), ("sub_product", 3, &["m"]), ("sqrt", 1, &["m", "nt"]),
    ("round", 1, &["m"]), ("floor", 1, &["m"]), ("ceil", 1, &["m"]), ("trunc", 1, &["m"]), ("fract", 1, &["m"]),
    ("eq", 2, &["m", "o"]), ("lt", 2, &["m", "o"]), ("le", 2, &["m"]), ("gt", 2, &["m"]), ("ge", 2, &["m", "o"]), ("cmp", 2, &["m", "o"]),
    ("partial_cmp", 2, &["o"]), ("min", 2, &["m", "o", "nt"]), ("max", 2, &["m", "o", "nt"]), ("copysign", 2, &["m"]),
    ("abs", 1, &["m", "nt", "sg"]), ("signum", 1, &["m", "nt", "sg"]), ("abs_sub", 2, &["sg"]), ("classify", 1, &["m", "nt"]),
    ("is_zero", 1, &["m", "nt"]), ("is_nar", 1, &["m"]), ("is_nan", 1, &["m"]), ("is_finite", 1, &["m"]), ("is_infinite", 1, &["m"]),
    ("is_normal", 1, &["m"]), ("is_sign_positive", 1, &["m"]), ("is_sign_negative", 1, &["m"]), ("is_positive", 1, &["sg"]), ("is_negative", 1, &["sg"]),
    ("to_f32", 1, &["m", "f"]), ("to_f64", 1, &["m", "f", "nt"]), ("to_i32", 1, &["m", "f"]), ("to_u32", 1, &["m", "f"]),
    ("to_i64", 1, &["m", "f", "nt"]), ("to_u64", 1, &["m", "f", "nt"]), ("to_i8", 1, &["m", "f"]), ("to_i16", 1, &["m", "f"]),
    ("to_u8", 1, &["m", "f"]), ("to_u16", 1, &["m", "f"]), ("to_isize", 1, &["m", "f"]), ("to_usize", 1, &["m", "f"]),
    ("to_p8", 1, &["f"]), ("to_p16", 1, &["f"]), ("to_p32", 1, &["f"]), ("f64_roundtrip", 1, &["m"]), ("str_roundtrip", 1, &["m"]),
];
const INTS: &[(&str, u32)] = &[("from_i8", 8), ("from_u8", 8), ("from_i16", 16), ("from_u16", 16), ("from_i32", 32), ("from_u32", 32),
    ("from_i64", 64), ("from_u64", 64), ("from_isize", 64), ("from_usize", 64)];
const ELEM16: [&str; 10] = ["exp", "exp2", "ln", "log2", "sin_pi", "cos_pi", "tan_pi", "asin_pi", "acos_pi", "atan_pi"];
const ELEM32: [&str; 19] = ["sin", "cos", "tan", "asin", "acos", "atan", "ln", "log2", "exp", "exp2", "exp10", "sinh", "cosh", "tanh", "asinh", "acosh", "cbrt", "to_degrees", "to_radians"];

fn hostile(n: u32) -> Vec<u64> {
    let mut v = gen::specials(n);
    let m = gen::mask(n);
    for k in 0..n {
        v.push((1u64 << k) & m);
        v.push(((1u64 << k) - 1) & m);
        v.push(gen::neg(n, 1u64 << k) & m);
    }
    v.sort();
    v.dedup();
    v
}

pub fn suite_c16(ctx: &mut Ctx) {
    // totality sweeps (the same in both profiles): a seeded coset of all P32E2 patterns through every unary operation
    // of the sweep table, and alignment-directed operand tuples through the arithmetic; a panic (or a result that the
    // second route does not share) selects the input, which is then logged like any other call
    {
        let l2 = ctx.q(25, 30) as u32;
        let all: Vec<&'static str> = vec!["to_f32", "to_f64", "to_i32", "to_u32", "to_i64", "to_u64", "round", "floor", "ceil", "trunc", "fract",
            "sqrt", "to_p16", "to_p8", "recip", "abs", "neg", "f64_roundtrip"];
        crate::screen::screen_unary32(ctx, &crate::fixed::P32T, &all, l2);
        let k = ctx.q(1 << 23, 1 << 27);
        for ty in [&crate::fixed::P16T, &crate::fixed::P32T] {
            crate::screen::screen_fixed(ctx, ty, &crate::screen::ARITH, k);
            crate::screen::screen_fixed(ctx, ty, &crate::screen::FUSED, k);
        }
    }
    let hostile_floats64: Vec<u64> = vec![0, 1 << 63, 0x7ff0_0000_0000_0000, 0xfff0_0000_0000_0000, 0x7ff8_0000_0000_0000, 0x7ff0_0000_0000_0001, u64::MAX,
        1, 0x000f_ffff_ffff_ffff, 0x0010_0000_0000_0000, 0x7fef_ffff_ffff_ffff, 0xffef_ffff_ffff_ffff, 0x3ff0_0000_0000_0000, 0x4770_0000_0000_0000, 0x3870_0000_0000_0000];
    let hostile_floats32: Vec<u64> = vec![0, 0x8000_0000, 0x7f80_0000, 0xff80_0000, 0x7fc0_0000, 0x7f80_0001, 0xffff_ffff, 1, 0x007f_ffff, 0x0080_0000,
        0x7f7f_ffff, 0xff7f_ffff, 0x3f80_0000, 0x7b80_0000, 0x0380_0000];
    for ty in FIXED {
        let hs = hostile(ty.n);
        let lat = gen::lattice(ty.n, ty.es, &mut ctx.rng, 1);
        let nrand = ctx.q(150, 4000);
        for (op, ar, sps) in OPS {
            let mut inputs: Vec<Vec<u64>> = Vec::new();
            match ar {
                1 => {
                    for &a in &hs { inputs.push(vec![a]); }
                    // every (regime, exponent) with an empty and a full fraction, both signs: the branch thresholds of the
                    // hand-written unary kernels sit on such patterns
                    if ty.n > 8 {
                        let kmax = ty.n as i32 - 2;
                        for k in -kmax..=kmax {
                            for e in 0..(1u32 << ty.es) {
                                for f in [0u64, u64::MAX] {
                                    let p = gen::compose(ty.n, ty.es, k, e, f);
                                    inputs.push(vec![p]);
                                    inputs.push(vec![gen::neg(ty.n, p)]);
                                }
                            }
                        }
                    }
                }
                2 => for &a in hs.iter().step_by(2) { for &b in hs.iter().step_by(3) { inputs.push(vec![a, b]); } },
                _ => for &a in hs.iter().step_by(5) { for &b in hs.iter().step_by(6) { for &c in hs.iter().step_by(7) { inputs.push(vec![a, b, c]); } } },
            }
            for _ in 0..nrand {
                inputs.push((0..*ar).map(|_| if ctx.rng.gen::<bool>() { lat[ctx.rng.gen_range(0..lat.len())] } else { gen::random_pattern(ty.n, &mut ctx.rng) }).collect());
            }
            for (i, x) in inputs.iter().enumerate() {
                ctx.call(ty, op, sps[i % sps.len()], x);
            }
        }
        // clamp with its precondition respected
        for _ in 0..nrand {
            let mut x: Vec<u64> = (0..3).map(|_| hs[ctx.rng.gen_range(0..hs.len())]).collect();
            let sx = |p: u64| ((p << (64 - ty.n)) as i64) >> (64 - ty.n);
            if sx(x[1]) > sx(x[2]) { x.swap(1, 2); }
            ctx.call(ty, "clamp", "m", &x);
        }
        for (op, w) in INTS {
            let k = ctx.q(40, 2000);
            for &x in gen::ints(*w, &mut ctx.rng, k).iter() {
                ctx.call(ty, op, "m", &[x]);
            }
        }
        for &x in &hostile_floats64 { ctx.call(ty, "from_f64", "m", &[x]); ctx.call(ty, "from_f64", "nc", &[x]); }
        for &x in &hostile_floats32 { ctx.call(ty, "from_f32", "m", &[x]); }
        for _ in 0..nrand {
            let (w64, w32) = (ctx.rng.gen::<u64>(), ctx.rng.gen::<u32>() as u64);
            ctx.call(ty, "from_f64", "m", &[w64]);
            ctx.call(ty, "from_f32", "m", &[w32]);
        }
        // elementary functions: hostile + lattice + random on every implemented function
        let elems: Vec<&'static str> = match ty.n {
            8 => vec!["exp", "ln", "asinh", "acosh"],
            16 => { let mut v = ELEM16.to_vec(); v.extend(["asinh", "acosh", "to_degrees", "to_radians"]); v }
            _ => ELEM32.to_vec(),
        };
        for f in elems {
            for &a in &hs { ctx.call(ty, f, "m", &[a]); }
            for _ in 0..nrand * 2 {
                let a = if ctx.rng.gen::<bool>() { lat[ctx.rng.gen_range(0..lat.len())] } else { gen::random_pattern(ty.n, &mut ctx.rng) };
                ctx.call(ty, f, "m", &[a]);
            }
        }
        if ty.n == 32 {
            for f in ["atan2", "hypot", "powf"] {
                for &a in hs.iter().step_by(2) { for &b in hs.iter().step_by(3) { ctx.call(ty, f, "m", &[a, b]); } }
                for _ in 0..nrand * 2 {
                    let (a, b) = (gen::random_pattern(32, &mut ctx.rng), gen::random_pattern(32, &mut ctx.rng));
                    ctx.call(ty, f, "m", &[a, b]);
                }
            }
            for &a in &hs { ctx.call(ty, "sin_cos", "m", &[a]); }
        }
        // polynomials on hostile values
        for deg in [1u32, 2, 3, 4, 5, 9, 13, 18, 33, 44] {
            for _ in 0..ctx.q(20, 300) {
                let x = hs[ctx.rng.gen_range(0..hs.len())];
                let cs: Vec<Vec<u64>> = (0..crate::poly::ncoef(deg)).map(|_| vec![hs[ctx.rng.gen_range(0..hs.len())]]).collect();
                let line = crate::poly::poly_event(ty.name, x, deg, 0, &cs);
                ctx.sink.line(&line);
            }
        }
        // quires on hostile terms
        for h in 0..ctx.q(150, 3000) {
            ctx.sink.boundary();
            ctx.sink.free = false;
            let mut q = QAny::new(ty.name);
            qcall(ctx, &mut q, 0, ty, "q_init", "m", &[], &[], &[]);
            for _ in 0..(1 + h % 6) {
                let a = hs[ctx.rng.gen_range(0..hs.len())];
                let b = hs[ctx.rng.gen_range(0..hs.len())];
                match ctx.rng.gen_range(0..6) {
                    0 => qcall(ctx, &mut q, 0, ty, "q_add", "p", &[a], &[], &[]),
                    1 => qcall(ctx, &mut q, 0, ty, "q_sub", "pp", &[a, b], &[], &[]),
                    2 => qcall(ctx, &mut q, 0, ty, "q_neg", "m", &[], &[], &[]),
                    3 => qcall(ctx, &mut q, 0, ty, "q_sub", "p", &[a], &[], &[]),
                    _ => qcall(ctx, &mut q, 0, ty, "q_add", "pp", &[a, b], &[], &[]),
                };
                qcall(ctx, &mut q, 0, ty, "q_to_posit", "m", &[], &[], &[]);
            }
            qcall(ctx, &mut q, 0, ty, "q_split3", "m", &[], &[], &[]);
            ctx.sink.free = true;
        }
    }
    // generic types: every width, hostile operands
    for t in ["x2", "x1"] {
        for n in 2..=32u32 {
            let hs: Vec<u64> = hostile(n).into_iter().map(|p| (p << (32 - n)) & 0xffff_ffff).collect();
            for &a in hs.iter().step_by(if n > 12 { 3 } else { 1 }) {
                for &b in hs.iter().step_by(if n > 12 { 5 } else { 2 }) {
                    for op in ["add", "sub", "mul", "div"] {
                        gcall(ctx, t, n, 0, op, "o", &[a, b]);
                    }
                    gcall(ctx, t, n, 0, "cmp", "m", &[a, b]);
                }
                for op in ["neg", "round"] { gcall(ctx, t, n, 0, op, if op == "neg" { "o" } else { "m" }, &[a]); }
                if t == "x2" { gcall(ctx, t, n, 0, "sqrt", "m", &[a]); }
                for op in ["to_f32", "to_f64", "to_i32", "to_u32", "to_i64", "to_u64"] { gcall(ctx, t, n, 0, op, "m", &[a]); }
                for op in ["to_p8", "to_p16", "to_p32"] { gcall(ctx, t, n, 0, op, "f", &[a]); }
                gcall(ctx, t, n, 2 + (a as u32 % 31), "to_x", "f", &[a]);
            }
            for &a in hs.iter().step_by(4) { for &b in hs.iter().step_by(5) { for &c in hs.iter().step_by(6) {
                for op in ["mul_add", "mul_sub", "sub_product"] { gcall(ctx, t, n, 0, op, "m", &[a, b, c]); }
            } } }
            for &x in &hostile_floats64 { gcall(ctx, t, n, 0, "from_f64", "m", &[x]); }
            for &x in &hostile_floats32 { gcall(ctx, t, n, 0, "from_f32", "m", &[x]); }
            for &x in gen::ints(32, &mut ctx.rng, 10).iter().step_by(7) {
                gcall(ctx, t, n, 0, "from_i32", "m", &[x]);
                if t == "x2" { gcall(ctx, t, n, 0, "from_u32", "m", &[x]); }
            }
            for &x in gen::ints(64, &mut ctx.rng, 10).iter().step_by(11) {
                gcall(ctx, t, n, 0, "from_u64", "m", &[x]);
                if t == "x2" { gcall(ctx, t, n, 0, "from_i64", "m", &[x]); }
            }
            for a in [0u64, 0x80, 1, 0x7f, 0x40, 0xc0, 0x81, 0xff] { gcall(ctx, t, n, 0, "from_p8", "f", &[a]); }
            for a in [0u64, 0x8000, 1, 0x7fff, 0x4000, 0xc000, 0x8001, 0xffff] { gcall(ctx, t, n, 0, "from_p16", "f", &[a]); }
            for a in [0u64, 0x8000_0000, 1, 0x7fff_ffff, 0x4000_0000, 0xc000_0000, 0x8000_0001, 0xffff_ffff] { gcall(ctx, t, n, 0, "from_p32", "f", &[a]); }
        }
    }
    crate::randsuite::suite_c19_lite(ctx);
}
