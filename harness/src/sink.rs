//! Trace sink: ndjson events, sharded so that TLC processes can validate shards in parallel.
//! A shard switch happens only at a `boundary()` (register/quire state is reset there).
use crate::val::Val;
use std::collections::HashSet;
use std::fs::File;
use std::io::{BufWriter, Write};
use std::path::PathBuf;

pub enum Outcome {
    Ok(Vec<Val>),
    Panic { msg: String, loc: String },
}

pub struct Sink {
    dir: PathBuf,
    pub cap: usize,
    shard: usize,
    in_shard: usize,
    w: Option<BufWriter<File>>,
    pub events: u64,
    pub nontrivial: HashSet<u64>,
    pub profile: String,
    pub samples: Vec<String>,
    pub panics: u64,
    /// inputs run through the implementation only to select which ones to log (never judged)
    pub screened: u64,
    pub per_op: std::collections::BTreeMap<String, u64>,
    /// false while a dataflow program / quire history is in progress (no shard switch then)
    pub free: bool,
}

impl Sink {
    pub fn new(dir: &str, cap: usize, profile: &str) -> Sink {
        std::fs::create_dir_all(dir).unwrap();
        Sink {
            dir: PathBuf::from(dir),
            cap,
            shard: 0,
            in_shard: 0,
            w: None,
            events: 0,
            nontrivial: HashSet::new(),
            profile: profile.to_string(),
            samples: Vec::new(),
            panics: 0,
            screened: 0,
            per_op: Default::default(),
            free: true,
        }
    }
    fn open(&mut self) {
        let p = self.dir.join(format!("shard_{:04}.ndjson", self.shard));
        let mut w = BufWriter::with_capacity(1 << 20, File::create(p).unwrap());
        writeln!(w, "{{\"op\":\"reset\",\"profile\":\"{}\"}}", self.profile).unwrap();
        self.w = Some(w);
        self.in_shard = 1;
    }
    /// a point where all machine state (registers, quires) is known to be reset
    pub fn boundary(&mut self) {
        if self.w.is_some() && self.in_shard >= self.cap {
            self.w.take().unwrap().flush().unwrap();
            self.shard += 1;
        }
        if self.w.is_none() {
            self.open();
        } else {
            let w = self.w.as_mut().unwrap();
            writeln!(w, "{{\"op\":\"reset\",\"profile\":\"{}\"}}", self.profile).unwrap();
            self.in_shard += 1;
        }
    }
    pub fn line(&mut self, s: &str) {
        if self.free && self.w.is_some() && self.in_shard >= self.cap {
            self.w.take().unwrap().flush().unwrap();
            self.shard += 1;
        }
        if self.w.is_none() {
            self.open();
        }
        let w = self.w.as_mut().unwrap();
        w.write_all(s.as_bytes()).unwrap();
        w.write_all(b"\n").unwrap();
        self.in_shard += 1;
        self.events += 1;
        if self.samples.len() < 8 && (self.events % 99_991 == 7 || self.events == 2 || self.events == 5003) {
            self.samples.push(s.to_string());
        }
    }
    pub fn finish(&mut self) -> usize {
        if let Some(mut w) = self.w.take() {
            w.flush().unwrap();
            self.shard += 1;
        }
        self.shard
    }
}

/// Build one event line.  `fields`: extra scalar fields (already JSON), `args`: named operands.
pub fn event(
    op: &str,
    t: &str,
    sp: &str,
    extra: &[(&str, String)],
    args: &[(&str, Val)],
    out: &Outcome,
) -> String {
    let mut s = String::with_capacity(160);
    s.push_str("{\"op\":\"");
    s.push_str(op);
    s.push_str("\",\"t\":\"");
    s.push_str(t);
    s.push_str("\",\"sp\":\"");
    s.push_str(sp);
    s.push('"');
    for (k, v) in extra {
        s.push_str(",\"");
        s.push_str(k);
        s.push_str("\":");
        s.push_str(v);
    }
    for (k, v) in args {
        s.push_str(",\"");
        s.push_str(k);
        s.push_str("\":");
        v.json(&mut s);
    }
    match out {
        Outcome::Ok(rs) => {
            s.push_str(",\"o\":\"ok\"");
            for (i, r) in rs.iter().enumerate() {
                if i == 0 {
                    s.push_str(",\"r\":");
                } else {
                    s.push_str(&format!(",\"r{}\":", i + 1));
                }
                r.json(&mut s);
            }
        }
        Outcome::Panic { msg, loc } => {
            s.push_str(",\"o\":\"panic\",\"msg\":");
            s.push_str(&format!("{:?}", msg));
            s.push_str(",\"loc\":");
            s.push_str(&format!("{:?}", loc));
            // an explicit not-implemented stub (todo!() / unimplemented!(), with or without a note)?
            let stub = msg.starts_with("not yet implemented") || msg.starts_with("not implemented");
            s.push_str(if stub { ",\"stub\":true" } else { ",\"stub\":false" });
        }
    }
    s.push('}');
    s
}
