//! Event interpreter: re-executes recorded or TLC-generated events against the real library.
//! Input: ndjson events (op, t, sp, operands ...; optional expected result r/r2/r3/bits/z/nn).
//! Output: the same events with the results the implementation returns NOW; if the input
//! carried expectations (T1 replay of TLC behaviours) they are compared here.
use crate::fixed;
use crate::guard::guarded;
use crate::quire::{is_mutator, QAny};
use crate::sink::{event, Outcome};
use crate::val::{val_eq, val_from_json, Val};
use serde_json::Value;
use std::collections::HashMap;

pub struct Interp {
    pub quires: HashMap<i64, QAny>,
}

pub fn exec_typed_m(t: &str, n: u32, m: u32, op: &str, sp: &str, x: &[u64]) -> Option<Vec<Val>> {
    if t == "x1" || t == "x2" {
        return crate::generic::exec_px_m(t, n, m, op, sp, x);
    }
    exec_typed(t, n, op, sp, x)
}

pub fn exec_typed(t: &str, n: u32, op: &str, sp: &str, x: &[u64]) -> Option<Vec<Val>> {
    match t {
        "p8" => fixed::exec_p8(op, sp, x),
        "p16" => fixed::exec_p16(op, sp, x),
        "p32" => fixed::exec_p32(op, sp, x),
        "x1" | "x2" => crate::generic::exec_px(t, n, op, sp, x),
        _ => None,
    }
}

fn words(v: &Value) -> Vec<u64> {
    match val_from_json(v) {
        Val::U(u) => vec![u],
        Val::Big(w) => w,
        _ => vec![],
    }
}

impl Interp {
    pub fn new() -> Interp {
        Interp { quires: HashMap::new() }
    }
    /// returns (event line, mismatch description if an expectation failed)
    pub fn run(&mut self, ev: &Value) -> (String, Option<String>) {
        let op = ev["op"].as_str().unwrap_or("");
        if op == "reset" {
            self.quires.clear();
            return (ev.to_string(), None);
        }
        let t = ev["t"].as_str().unwrap_or("");
        let sp = ev["sp"].as_str().unwrap_or("m");
        let n = ev["n"].as_u64().unwrap_or(0) as u32;
        let mut x: Vec<u64> = Vec::new();
        let mut args: Vec<(&str, Val)> = Vec::new();
        for k in ["a", "b", "c", "e"] {
            if let Some(v) = ev.get(k) {
                let val = val_from_json(v);
                x.push(val.u());
                args.push((k, val));
            }
        }
        let mut extra: Vec<(&str, String)> = Vec::new();
        for k in ["n", "m", "d", "ra", "rb", "rc", "q", "dom"] {
            if let Some(v) = ev.get(k) {
                extra.push((k, v.to_string()));
            }
        }
        if op == "q_dot" {
            let arr = |k: &str| -> Vec<u64> { ev[k].as_array().map(|a| a.iter().map(|v| val_from_json(v).u()).collect()).unwrap_or_default() };
            let (a, b) = (arr("as"), arr("bs"));
            let k = a.len();
            let lines = crate::la::dot_events(t, 1, k, 1, &a, &b);
            return (lines.into_iter().next().unwrap_or_default(), None);
        }
        if op == "poly" {
            let deg = ev["deg"].as_u64().unwrap_or(1) as u32;
            let parts = ev["parts"].as_u64().unwrap_or(0) as usize;
            let cs: Vec<Vec<u64>> = ev["cs"].as_array().map(|a| a.iter().map(|c| c.as_array().map(|p| p.iter().map(|v| val_from_json(v).u()).collect()).unwrap_or_default()).collect()).unwrap_or_default();
            return (crate::poly::poly_event(t, x[0], deg, parts, &cs), None);
        }
        if op == "load" {
            let out = Outcome::Ok(vec![args[0].1.clone()]);
            return (event(op, t, sp, &extra, &args, &out), None);
        }
        let out: Outcome;
        if op.starts_with("q_") {
            let qi = ev["q"].as_i64().unwrap_or(0);
            let bs: Vec<u64> = ev.get("bs").and_then(|b| b.as_array()).map(|a| a.iter().map(|v| val_from_json(v).u()).collect()).unwrap_or_default();
            if let Some(b) = ev.get("bs") {
                extra.push(("bs", b.to_string()));
            }
            let big: Vec<u64> = if op == "q_from_bits" { words(&ev["a"]) } else { vec![] };
            if op == "q_from_bits" {
                args[0].1 = Val::Big(big.clone());
            }
            let q = self.quires.entry(qi).or_insert_with(|| QAny::new(t));
            let r = if t == "x2" || t == "x1" {
                guarded(|| crate::generic::q_exec_px(q, t, n, op, sp, &x, &bs, &big))
            } else {
                guarded(|| q.exec(op, sp, &x, &bs, &big))
            };
            let r = match r {
                Some(r) => r,
                None => return (String::new(), Some(format!("harness: unknown quire op {op}/{sp}/{t}"))),
            };
            if is_mutator(op) {
                let (bits, z, nn) = q.observe();
                let mut s = String::new();
                Val::Big(bits).json(&mut s);
                extra.push(("bits", s));
                extra.push(("z", z.to_string()));
                extra.push(("nn", nn.to_string()));
            }
            out = r;
        } else {
            let m = ev["m"].as_u64().unwrap_or(0) as u32;
            out = match guarded(|| exec_typed_m(t, n, m, op, sp, &x)) {
                Some(r) => r,
                None => return (String::new(), Some(format!("harness: unknown op {op}/{sp}/{t}"))),
            };
        }
        let line = event(op, t, sp, &extra, &args, &out);
        // expectations
        let mut mism = None;
        if let Some(exp) = ev.get("x_r") {
            match &out {
                Outcome::Ok(rs) => {
                    let e = val_from_json(exp);
                    if rs.is_empty() || !val_eq(&rs[0], &e) {
                        mism = Some(format!("expected r={} got {:?}", exp, rs.first()));
                    }
                }
                Outcome::Panic { msg, loc } => mism = Some(format!("expected r={} got panic {msg} at {loc}", exp)),
            }
        }
        if let Some(exp) = ev.get("x_bits") {
            let qi = ev["q"].as_i64().unwrap_or(0);
            if let Some(q) = self.quires.get(&qi) {
                let (bits, z, nn) = q.observe();
                if !val_eq(&Val::Big(bits.clone()), &val_from_json(exp)) {
                    mism = Some(format!("expected bits={} got {:?}", exp, bits));
                }
                if let Some(ez) = ev.get("x_z").and_then(|v| v.as_bool()) {
                    if ez != z {
                        mism = Some(format!("expected is_zero={ez} got {z}"));
                    }
                }
                if let Some(en) = ev.get("x_nn").and_then(|v| v.as_bool()) {
                    if en != nn {
                        mism = Some(format!("expected is_nar={en} got {nn}"));
                    }
                }
            }
        }
        (line, mism)
    }
}

/// `exec in out`: returns number of expectation mismatches
pub fn exec_file(inp: &str, outp: &str) -> (u64, u64, Vec<String>) {
    use std::io::{BufRead, BufReader, BufWriter, Write};
    let f = BufReader::new(std::fs::File::open(inp).expect("open input"));
    let mut w = BufWriter::new(std::fs::File::create(outp).expect("create output"));
    let mut it = Interp::new();
    let mut n = 0u64;
    let mut bad = 0u64;
    let mut msgs = Vec::new();
    for line in f.lines() {
        let line = line.unwrap();
        if line.trim().is_empty() {
            continue;
        }
        let ev: Value = match serde_json::from_str(&line) {
            Ok(v) => v,
            Err(e) => {
                msgs.push(format!("bad json: {e}"));
                bad += 1;
                continue;
            }
        };
        let (out, mism) = it.run(&ev);
        if !out.is_empty() {
            writeln!(w, "{}", out).unwrap();
        }
        n += 1;
        if let Some(m) = mism {
            bad += 1;
            if msgs.len() < 50 {
                msgs.push(format!("{} :: {}", m, line));
            }
        }
    }
    w.flush().unwrap();
    (n, bad, msgs)
}
