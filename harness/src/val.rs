//! Values crossing the JSON boundary: naturals as base-2^15 little-endian limb arrays
//! (TLC integers are 32-bit), booleans, small signed ints, strings.
use std::fmt::Write as _;

#[derive(Clone, Debug, PartialEq)]
pub enum Val {
    U(u64),
    Big(Vec<u64>), // little-endian 64-bit words
    B(bool),
    I(i64), // small (|x| < 2^31): orderings, counts
    S(String),
}

pub fn limbs_of_words(w: &[u64]) -> Vec<u32> {
    // little-endian words -> base 2^15 digits, canonical (no high zero limb)
    let nbits = w.len() * 64;
    let mut out = Vec::new();
    let mut pos = 0;
    while pos < nbits {
        let wi = pos / 64;
        let off = pos % 64;
        let mut v = w[wi] >> off;
        if off + 15 > 64 && wi + 1 < w.len() {
            v |= w[wi + 1] << (64 - off);
        }
        out.push((v & 0x7fff) as u32);
        pos += 15;
    }
    while let Some(&0) = out.last() {
        out.pop();
    }
    out
}

pub fn words_of_limbs(l: &[u64], nwords: usize) -> Vec<u64> {
    let mut w = vec![0u64; nwords];
    for (i, &d) in l.iter().enumerate() {
        let pos = i * 15;
        let wi = pos / 64;
        let off = pos % 64;
        if wi < nwords {
            w[wi] |= d << off;
            if off + 15 > 64 && wi + 1 < nwords {
                w[wi + 1] |= d >> (64 - off);
            }
        }
    }
    w
}

pub fn json_limbs(w: &[u64], s: &mut String) {
    s.push('[');
    let l = limbs_of_words(w);
    for (i, d) in l.iter().enumerate() {
        if i > 0 {
            s.push(',');
        }
        let _ = write!(s, "{}", d);
    }
    s.push(']');
}

impl Val {
    pub fn json(&self, s: &mut String) {
        match self {
            Val::U(u) => json_limbs(&[*u], s),
            Val::Big(w) => json_limbs(w, s),
            Val::B(b) => s.push_str(if *b { "true" } else { "false" }),
            Val::I(i) => {
                let _ = write!(s, "{}", i);
            }
            Val::S(x) => {
                let _ = write!(s, "{:?}", x);
            }
        }
    }
    pub fn u(&self) -> u64 {
        match self {
            Val::U(u) => *u,
            Val::Big(w) => w.first().copied().unwrap_or(0),
            Val::B(b) => *b as u64,
            Val::I(i) => *i as u64,
            Val::S(_) => 0,
        }
    }
}

pub fn val_from_json(v: &serde_json::Value) -> Val {
    match v {
        serde_json::Value::Bool(b) => Val::B(*b),
        serde_json::Value::Number(n) => Val::I(n.as_i64().unwrap()),
        serde_json::Value::String(s) => Val::S(s.clone()),
        serde_json::Value::Array(a) => {
            let l: Vec<u64> = a.iter().map(|x| x.as_u64().unwrap()).collect();
            let nwords = (l.len() * 15 + 63) / 64;
            if nwords <= 1 {
                Val::U(words_of_limbs(&l, 1)[0])
            } else {
                Val::Big(words_of_limbs(&l, nwords))
            }
        }
        _ => panic!("bad json value {v}"),
    }
}

/// equality modulo representation (U vs Big with high zero words)
pub fn val_eq(a: &Val, b: &Val) -> bool {
    fn words(v: &Val) -> Option<Vec<u64>> {
        match v {
            Val::U(u) => Some(vec![*u]),
            Val::Big(w) => Some(w.clone()),
            _ => None,
        }
    }
    match (words(a), words(b)) {
        (Some(mut x), Some(mut y)) => {
            while let Some(&0) = x.last() {
                x.pop();
            }
            while let Some(&0) = y.last() {
                y.pop();
            }
            x == y
        }
        (None, None) => a == b,
        _ => false,
    }
}
