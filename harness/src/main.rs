mod c16;
mod drive;
mod elem;
mod fixed;
mod gdrive;
mod generic;
mod interp;
mod la;
mod gen;
mod guard;
mod qdrive;
mod poly;
mod quire;
mod randsuite;
mod sink;
mod screen;
mod val;

fn main() {
    let args: Vec<String> = std::env::args().collect();
    if args.len() < 2 {
        eprintln!("usage: vharness drive <suite> <quick|thorough> <seed> <outdir> | replay <file>");
        std::process::exit(2);
    }
    guard::install();
    match args[1].as_str() {
        "drive" => {
            let suite = args[2].as_str();
            let thorough = args[3] == "thorough";
            let seed: u64 = args[4].parse().unwrap();
            let dir = args[5].as_str();
            let profile = if cfg!(debug_assertions) { "dev" } else { "release" };
            let cap = std::env::var("VERIF_SHARD_CAP").ok().and_then(|s| s.parse().ok()).unwrap_or(40_000);
            let mut ctx = drive::Ctx::new(dir, profile, seed, thorough, cap);
            guard::watchdog(format!("{dir}/TIMEOUT.ndjson"), 10);
            // heavier events: smaller shards so that all TLC processes are busy
            match suite {
                "C18" => ctx.sink.cap = 1200,
                "C04" | "C12" => ctx.sink.cap = 12_000,
                "C11" | "C15" => ctx.sink.cap = 1500,
                _ => {}
            }
            match suite {
                "C01" => drive::suite_c01(&mut ctx),
                "SELF" => drive::suite_self(&mut ctx),
                "C02" => drive::suite_c02(&mut ctx),
                "C03" => drive::suite_c03(&mut ctx),
                "C05" => drive::suite_c05(&mut ctx),
                "C06" => drive::suite_c06(&mut ctx),
                "C07" => drive::suite_c07(&mut ctx),
                "C08" => drive::suite_c08(&mut ctx),
                "C09" => drive::suite_c09(&mut ctx),
                "C10" => drive::suite_c10(&mut ctx),
                "C17" => drive::suite_c17(&mut ctx),
                "C04" => qdrive::suite_c04(&mut ctx),
                "C18" => poly::suite_c18(&mut ctx),
                "C16" => c16::suite_c16(&mut ctx),
                "C13" => gdrive::suite_c13(&mut ctx),
                "C14" => gdrive::suite_c14(&mut ctx),
                "C10G" => gdrive::suite_c10g(&mut ctx),
                "C11" => elem::suite_c11(&mut ctx),
                "C15" => elem::suite_c15(&mut ctx),
                "C19" => randsuite::suite_c19(&mut ctx),
                "C12" => qdrive::suite_c12(&mut ctx),
                _ => {
                    eprintln!("unknown suite {suite}");
                    std::process::exit(2);
                }
            }
            let shards = ctx.sink.finish();
            let meta = serde_json::json!({
                "suite": suite, "profile": profile, "seed": seed, "shards": shards,
                "events": ctx.sink.events, "distinct_nontrivial": ctx.sink.nontrivial.len(),
                "panics": ctx.sink.panics, "screened": ctx.sink.screened, "per_op": ctx.sink.per_op, "samples": ctx.sink.samples,
            });
            std::fs::write(format!("{dir}/meta.json"), serde_json::to_string_pretty(&meta).unwrap()).unwrap();
        }
        "screen" => {
            elem::screen_hist(&args[2], args[3].parse().unwrap(), args[4].parse().unwrap(), args[5].parse().unwrap(), 7);
        }
        "sweep" => {
            let op: &'static str = Box::leak(args[2].clone().into_boxed_str());
            elem::sweep_hist(op, args[3].parse().unwrap(), 1);
        }
        "exec" => {
            guard::watchdog(format!("{}.TIMEOUT", args[3]), 10);
            let (n, bad, msgs) = interp::exec_file(&args[2], &args[3]);
            for m in &msgs {
                println!("REPLAY-MISMATCH {}", m);
            }
            println!("EXEC events={} mismatches={}", n, bad);
        }
        _ => {
            eprintln!("unknown command");
            std::process::exit(2);
        }
    }
}
