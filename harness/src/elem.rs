//! C11 (P16E1 / P8E0 elementary functions, correctly rounded) and C15 (P32E2, ULP bounds).
use crate::drive::{peek, Ctx};
use crate::fixed::{P16T, P32T, P8T};
use crate::gen;
use rand::Rng;

const F16: [&str; 10] = ["exp", "exp2", "ln", "log2", "sin_pi", "cos_pi", "tan_pi", "asin_pi", "acos_pi", "atan_pi"];

pub fn suite_c11(ctx: &mut Ctx) {
    // P8E0: exp and ln on every pattern
    for a in 0..256u64 {
        ctx.call(&P8T, "exp", "m", &[a]);
        ctx.call(&P8T, "ln", "m", &[a]);
        if a % 16 == 0 {
            ctx.call(&P8T, "exp", "nt", &[a]);
            ctx.call(&P8T, "ln", "nt", &[a]);
        }
    }
    // P16E1: thorough = every pattern x ten functions; quick = a seeded coset of the patterns
    // (every `stride`-th, offset by the seed) + specials + thresholds
    let stride = ctx.q(8, 1) as u64;
    let off = ctx.seed % stride;
    let mut xs: Vec<u64> = (0..65536u64).filter(|p| p % stride == off).collect();
    if stride > 1 {
        xs.extend(gen::specials(16));
        // every regime boundary and the patterns around the hard-coded thresholds of the kernels
        for k in 0..16 {
            for d in [-2i64, -1, 0, 1, 2] {
                for base in [1u64 << k, (1u64 << k) | (1 << (k.max(1) - 1)), 0x7fff >> k, 0x3fff >> k] {
                    let p = ((base as i64 + d) as u64) & 0xffff;
                    xs.push(p);
                    xs.push(gen::neg(16, p));
                }
            }
        }
        for t in [31743u64, 31231, 0x7A00, 0x7BFF, 0x7C00, 0x4000, 0x3000, 0x5000, 0x6C00, 0x6800, 0x1000, 0x0800, 28672, 24576, 0x7800, 0x7400] {
            for d in -3i64..=3 {
                let p = ((t as i64 + d) as u64) & 0xffff;
                xs.push(p);
                xs.push(gen::neg(16, p));
            }
        }
        for _ in 0..2000 {
            xs.push(gen::random_pattern(16, &mut ctx.rng));
        }
        xs.sort();
        xs.dedup();
    }
    // quick tier: the patterns left out of the coset are screened -- all ten functions on every remaining pattern
    // against the f64 value rounded by `from_f64`; a disagreement only selects the input for judgement
    if stride > 1 {
        let have: std::collections::HashSet<u64> = xs.iter().copied().collect();
        let pi = std::f64::consts::PI;
        for a in 0..65536u64 {
            if have.contains(&a) || a == 0x8000 {
                continue;
            }
            let v = if a == 0 { 0.0 } else { gen::to_f64_exact(16, 1, a) };
            let r = v % 2.0; // exact
            for f in F16 {
                let want = match f {
                    "exp" => v.exp(),
                    "exp2" => v.exp2(),
                    "ln" => v.ln(),
                    "log2" => v.log2(),
                    "sin_pi" => (pi * r).sin(),
                    "cos_pi" => (pi * r).cos(),
                    "tan_pi" => (pi * r).tan(),
                    "asin_pi" => v.asin() / pi,
                    "acos_pi" => v.acos() / pi,
                    _ => v.atan() / pi,
                };
                ctx.sink.screened += 1;
                let w = if want.is_nan() { 0x8000 } else { softposit::P16E1::from_f64(want).to_bits() as u64 };
                if peek(&P16T, f, &[a]) != Some(w) {
                    *ctx.sink.per_op.entry(format!("screen-selected:p16.{}", f)).or_insert(0) += 1;
                    ctx.call(&P16T, f, "m", &[a]);
                }
            }
        }
    }
    for (i, &a) in xs.iter().enumerate() {
        for f in F16 {
            ctx.call(&P16T, f, "m", &[a]);
        }
        if i % 64 == 0 {
            for f in ["exp", "exp2", "ln", "log2"] {
                ctx.call(&P16T, f, "nt", &[a]);
            }
        }
    }
}

const F32U: [&str; 14] = ["sin", "cos", "tan", "asin", "acos", "atan", "ln", "log2", "exp", "exp2", "sinh", "cosh", "cbrt", "sin"];

pub fn suite_c15(ctx: &mut Ctx) {
    let ty = &P32T;
    let lat = gen::lattice(32, 2, &mut ctx.rng, 2);
    let per = ctx.q(1500, 20_000);
    for f in F32U.iter().take(13) {
        let mut xs: Vec<u64> = gen::specials(32);
        for _ in 0..per {
            let x = match ctx.rng.gen_range(0..10) {
                0 | 1 => lat[ctx.rng.gen_range(0..lat.len())],
                2 => gen::random_pattern(32, &mut ctx.rng),
                // in-domain magnitudes with random fractions
                3 | 4 => {
                    let s = match *f {
                        "sin" | "cos" | "tan" => ctx.rng.gen_range(-30..19),
                        "exp" | "exp2" | "sinh" | "cosh" => ctx.rng.gen_range(-40..7),
                        "asin" | "acos" => ctx.rng.gen_range(-30..0),
                        _ => ctx.rng.gen_range(-119..119),
                    };
                    let p = gen::from_scale(32, 2, s, ctx.rng.gen::<u64>());
                    if ctx.rng.gen::<bool>() { gen::neg(32, p) } else { p }
                }
                // near 1 (ln, log2, acos, asin, atan), near multiples of pi/2 (trig)
                5 => {
                    let one = 0x4000_0000u64;
                    ((one as i64 + ctx.rng.gen_range(-2000i64..2000)) as u64) & 0xffff_ffff
                }
                6 => {
                    // multiples of pi/2 as P32 patterns +- a few ulps
                    let k = ctx.rng.gen_range(1..2000) as f64;
                    let v = k * std::f64::consts::FRAC_PI_2;
                    let p = softposit::P32E2::from_f64(v).to_bits() as u64;
                    let q = ((p as i64 + ctx.rng.gen_range(-3i64..=3)) as u64) & 0xffff_ffff;
                    if ctx.rng.gen::<bool>() { gen::neg(32, q) } else { q }
                }
                // tiny arguments (results ~ x or ~ 1)
                7 => {
                    let p = gen::from_scale(32, 2, ctx.rng.gen_range(-120..-20), ctx.rng.gen::<u64>());
                    if ctx.rng.gen::<bool>() { gen::neg(32, p) } else { p }
                }
                // domain edges
                8 => {
                    let edges = [104.0f64, -104.0, 128.0, -150.0, 88.0, -88.0, 393215.0, -393215.0, 1.0, -1.0, 0.5, 2.0, 83.0, 89.0];
                    let v = edges[ctx.rng.gen_range(0..edges.len())];
                    let p = softposit::P32E2::from_f64(v).to_bits() as u64;
                    ((p as i64 + ctx.rng.gen_range(-3i64..=3)) as u64) & 0xffff_ffff
                }
                _ => {
                    let p = gen::from_scale(32, 2, ctx.rng.gen_range(-8..8), ctx.rng.gen::<u64>());
                    if ctx.rng.gen::<bool>() { gen::neg(32, p) } else { p }
                }
            };
            xs.push(x);
        }
        for (i, &a) in xs.iter().enumerate() {
            ctx.call(ty, f, if i % 50 == 0 { "nt" } else { "m" }, &[a]);
        }
    }
    // worst cases for argument reduction: posits that happen to lie extremely close to a multiple of pi/2
    // (all 250 000 multiples inside the documented range are scanned; selection only, in f64)
    {
        let mut cand: Vec<(f64, u64)> = Vec::new();
        let mut k = 1u64;
        while (k as f64) * std::f64::consts::FRAC_PI_2 < 393216.0 {
            let v = (k as f64) * std::f64::consts::FRAC_PI_2;
            let p = softposit::P32E2::from_f64(v);
            let back = f64::from(p);
            cand.push(((back - v).abs(), p.to_bits() as u64));
            k += 1;
        }
        cand.sort_by(|a, b| a.0.partial_cmp(&b.0).unwrap());
        let keep = ctx.q(2500, 40_000);
        for &(_, p) in cand.iter().take(keep) {
            for f in ["sin", "cos", "tan"] {
                ctx.call(ty, f, "m", &[p]);
                ctx.call(ty, f, "m", &[gen::neg(32, p)]);
            }
        }
    }
    // two-argument functions
    let per2 = ctx.q(1500, 20_000);
    for f in ["hypot", "powf", "atan2"] {
        for &a in gen::specials(32).iter() {
            for &b in gen::specials(32).iter().step_by(2) {
                ctx.call(ty, f, "m", &[a, b]);
            }
        }
        for _ in 0..per2 {
            let pick = |ctx: &mut Ctx| match ctx.rng.gen_range(0..6) {
                0 => lat[ctx.rng.gen_range(0..lat.len())],
                1 => gen::random_pattern(32, &mut ctx.rng),
                _ => {
                    let p = gen::from_scale(32, 2, ctx.rng.gen_range(-10..10), ctx.rng.gen::<u64>());
                    if ctx.rng.gen_range(0..3) == 0 { gen::neg(32, p) } else { p }
                }
            };
            let a = pick(ctx);
            let b = pick(ctx);
            ctx.call(ty, f, "m", &[a, b]);
        }
    }
    screen_c15(ctx);
}

/// f64 value of the function, used only to *rank* candidate inputs (never to judge a result)
fn f64_ref(op: &str, a: f64, b: f64) -> f64 {
    match op {
        "sin" => a.sin(),
        "cos" => a.cos(),
        "tan" => a.tan(),
        "asin" => a.asin(),
        "acos" => a.acos(),
        "atan" => a.atan(),
        "ln" => a.ln(),
        "log2" => a.log2(),
        "exp" => a.exp(),
        "exp2" => a.exp2(),
        "sinh" => a.sinh(),
        "cosh" => a.cosh(),
        "cbrt" => a.cbrt(),
        "hypot" => a.hypot(b),
        "powf" => a.powf(b),
        "atan2" => a.atan2(b),
        _ => f64::NAN,
    }
}

/// Screening: many more inputs than TLC could judge are run through the implementation, ranked by their distance (in
/// patterns) from the f64 value of the function, and the worst of each function are logged for the specification to
/// judge.  The ranking decides nothing; it only aims the judged sample at the inputs most likely to exceed the bound.
fn screen_c15(ctx: &mut Ctx) {
    let ty = &P32T;
    let n = ctx.q(60_000, 3_000_000);
    let keep = ctx.q(150, 1500);
    let p = |v: u64| f64::from(softposit::P32E2::from_bits(v as u32));
    // unary functions: a seeded coset of 2^27 of all 2^32 argument patterns (thorough: every pattern), on all cores; the
    // `keep` arguments whose result is furthest from the f64 value are judged
    let l2 = ctx.q(27, 32) as u32;
    for f in F32U.iter().take(13).copied() {
        type U = fn(softposit::P32E2) -> softposit::P32E2;
        let imp: U = match f {
            "sin" => |x| x.sin(), "cos" => |x| x.cos(), "tan" => |x| x.tan(), "asin" => |x| x.asin(), "acos" => |x| x.acos(),
            "atan" => |x| x.atan(), "ln" => |x| x.ln(), "log2" => |x| x.log2(), "exp" => |x| x.exp(), "exp2" => |x| x.exp2(),
            "sinh" => |x| x.sinh(), "cosh" => |x| x.cosh(), _ => |x| x.cbrt(),
        };
        let stride = 1u64 << (32 - l2);
        let off = ctx.seed.wrapping_mul(0xC2B2_AE3D_27D4_EB4F).wrapping_add(f.len() as u64 * 7919) % stride;
        crate::guard::set_current(f, "p32", "sweep", 32, &[off, stride]);
        let (cnt, top) = crate::screen::par_top(1u64 << 32, stride, off, keep, |a| {
            if a == 0 || a == 0x8000_0000 {
                return None;
            }
            let x = f64::from(softposit::P32E2::from_bits(a as u32));
            // the documented domains (outside them nothing is demanded of the value)
            let ok = match f {
                "sin" | "cos" | "tan" => x.abs() < 393216.0,
                "exp" => x.abs() <= 104.0,
                "exp2" => x >= -150.0 && x < 128.0,
                "sinh" | "cosh" => x.abs() <= 88.0,
                _ => true,
            };
            if !ok {
                return None;
            }
            let want = f64_ref(f, x, 0.0);
            if !want.is_finite() {
                return None;
            }
            let got = imp(softposit::P32E2::from_bits(a as u32)).to_bits();
            if got == 0x8000_0000 {
                return Some(i64::MAX - 1); // NaR for an argument with a real result
            }
            let w = softposit::P32E2::from_f64(want).to_bits();
            Some(((got as i32) as i64 - (w as i32) as i64).abs())
        });
        ctx.sink.screened += cnt;
        for &(_, a) in &top {
            ctx.call(ty, f, "m", &[a]);
        }
    }
    for f in F32U.iter().take(13).copied().chain(["hypot", "powf", "atan2"]) {
        let two = matches!(f, "hypot" | "powf" | "atan2");
        let mut worst: Vec<(i64, u64, u64)> = Vec::new();
        // distance (in patterns) of the implementation's result from the f64 value; None: not comparable
        let eval = |ctx: &mut Ctx, a: u64, b: u64| -> Option<i64> {
            let want = f64_ref(f, p(a), p(b));
            if !want.is_finite() {
                return None;
            }
            let got = match if two { peek(ty, f, &[a, b]) } else { peek(ty, f, &[a]) } {
                Some(r) if r != 0x8000_0000 => r,
                _ => return None,
            };
            ctx.sink.screened += 1;
            let w = softposit::P32E2::from_f64(want).to_bits();
            Some(((got as u32 as i32) as i64 - (w as i32) as i64).abs())
        };
        let push = |worst: &mut Vec<(i64, u64, u64)>, d: i64, a: u64, b: u64| {
            if d >= 1 {
                worst.push((d, a, b));
                if worst.len() > 4 * keep {
                    worst.sort_by(|x, y| y.0.cmp(&x.0));
                    worst.dedup();
                    worst.truncate(keep);
                }
            }
        };
        // round 0: the whole domain
        for i in 0..n {
            let (lo, hi) = match f {
                "sin" | "cos" | "tan" => (-30, 19),
                "exp" | "sinh" | "cosh" => (-30, 7),
                "exp2" => (-30, 7),
                "asin" | "acos" => (-30, 0),
                "powf" => (-3, 4),
                _ => (-60, 60),
            };
            let pick = |ctx: &mut Ctx, signed: bool| {
                // half of the sample: every binade of the range equally likely; half: a few binades around 1
                let s = if i % 2 == 0 { ctx.rng.gen_range(lo..hi) } else { ctx.rng.gen_range(lo.max(-3)..hi.min(4)) };
                let v = gen::from_scale(32, 2, s, ctx.rng.gen::<u64>());
                if signed && ctx.rng.gen::<bool>() { gen::neg(32, v) } else { v }
            };
            let a = pick(ctx, !matches!(f, "ln" | "log2" | "powf"));
            let b = if two { pick(ctx, true) } else { 0 };
            if let Some(d) = eval(ctx, a, b) {
                push(&mut worst, d, a, b);
            }
        }
        // rounds 1, 2: hill climbing -- inputs near the worst ones found so far (errors at or above the bound cluster
        // where a kernel is weakest: next to a branch threshold, at the largest polynomial argument, ...)
        for (radius, share) in [(1i64 << 22, 2usize), (1i64 << 14, 4)] {
            worst.sort_by(|x, y| y.0.cmp(&x.0));
            worst.dedup();
            let seeds: Vec<(u64, u64)> = worst.iter().take(48).map(|w| (w.1, w.2)).collect();
            if seeds.is_empty() {
                break;
            }
            for i in 0..n / share {
                let (sa, sb) = seeds[i % seeds.len()];
                let jit = |ctx: &mut Ctx, v: u64| ((v as i64 + ctx.rng.gen_range(-radius..=radius)) as u64) & 0xffff_ffff;
                let a = jit(ctx, sa);
                let b = if two && i % 2 == 0 { jit(ctx, sb) } else { sb };
                if a == 0 || a == 0x8000_0000 || (two && (b == 0 || b == 0x8000_0000)) {
                    continue;
                }
                if let Some(d) = eval(ctx, a, b) {
                    push(&mut worst, d, a, b);
                }
            }
        }
        worst.sort_by(|x, y| y.0.cmp(&x.0));
        worst.dedup();
        worst.truncate(keep);
        for &(_, a, b) in &worst {
            if two {
                ctx.call(ty, f, "m", &[a, b]);
            } else {
                ctx.call(ty, f, "m", &[a]);
            }
        }
    }
}

/// tuning aid (not a check): histogram of pattern distances from the f64 value for one P32E2 function
pub fn screen_hist(op: &str, n: usize, lo: i32, hi: i32, seed: u64) {
    use rand::SeedableRng;
    let mut rng = rand::rngs::StdRng::seed_from_u64(seed);
    let ty = &P32T;
    let two = matches!(op, "hypot" | "powf" | "atan2");
    let p = |v: u64| f64::from(softposit::P32E2::from_bits(v as u32));
    let mut hist = std::collections::BTreeMap::<i64, (u64, u64, u64)>::new();
    for _ in 0..n {
        let a = gen::from_scale(32, 2, rng.gen_range(lo..hi), rng.gen::<u64>());
        let mut b = if two { gen::from_scale(32, 2, rng.gen_range(lo..hi), rng.gen::<u64>()) } else { 0 };
        if two && rng.gen::<bool>() {
            b = gen::neg(32, b);
        }
        let want = f64_ref(op, p(a), p(b));
        if !want.is_finite() {
            continue;
        }
        let got = match if two { peek(ty, op, &[a, b]) } else { peek(ty, op, &[a]) } {
            Some(r) if r != 0x8000_0000 => r,
            _ => continue,
        };
        let w = softposit::P32E2::from_f64(want).to_bits();
        let d = ((got as u32 as i32) as i64 - (w as i32) as i64).abs();
        let e = hist.entry(d.min(1000)).or_insert((0, a, b));
        e.0 += 1;
    }
    for (d, (c, a, b)) in hist {
        println!("d={d} count={c} e.g. a={a:#x} b={b:#x}");
    }
}

/// tuning aid (not a check): histogram of pattern distances from the f64 value over a coset of ALL P32E2 arguments
pub fn sweep_hist(op: &'static str, log2n: u32, seed: u64) {
    type U = fn(softposit::P32E2) -> softposit::P32E2;
    let imp: U = match op {
        "sin" => |x| x.sin(), "cos" => |x| x.cos(), "tan" => |x| x.tan(), "asin" => |x| x.asin(), "acos" => |x| x.acos(),
        "atan" => |x| x.atan(), "ln" => |x| x.ln(), "log2" => |x| x.log2(), "exp" => |x| x.exp(), "exp2" => |x| x.exp2(),
        "sinh" => |x| x.sinh(), "cosh" => |x| x.cosh(), _ => |x| x.cbrt(),
    };
    let stride = 1u64 << (32 - log2n);
    let off = seed % stride;
    let hist = std::sync::Mutex::new(std::collections::BTreeMap::<i64, (u64, u64)>::new());
    let nthreads = 16u64;
    std::thread::scope(|sc| {
        for t in 0..nthreads {
            let hist = &hist;
            sc.spawn(move || {
                let mut local = std::collections::BTreeMap::<i64, (u64, u64)>::new();
                let mut a = off + t * stride;
                while a < (1u64 << 32) {
                    if a != 0 && a != 0x8000_0000 {
                        let x = f64::from(softposit::P32E2::from_bits(a as u32));
                        let ok = match op {
                            "sin" | "cos" | "tan" => x.abs() < 393216.0,
                            "exp" => x.abs() <= 104.0,
                            "exp2" => x >= -150.0 && x < 128.0,
                            "sinh" | "cosh" => x.abs() <= 88.0,
                            _ => true,
                        };
                        let want = f64_ref(op, x, 0.0);
                        if ok && want.is_finite() {
                            let got = imp(softposit::P32E2::from_bits(a as u32)).to_bits();
                            let w = softposit::P32E2::from_f64(want).to_bits();
                            let d = if got == 0x8000_0000 { 1_000_000 } else { ((got as i32) as i64 - (w as i32) as i64).abs().min(1000) };
                            let e = local.entry(d).or_insert((0, a));
                            e.0 += 1;
                        }
                    }
                    a += stride * nthreads;
                }
                let mut h = hist.lock().unwrap();
                for (d, (c, a)) in local {
                    let e = h.entry(d).or_insert((0, a));
                    e.0 += c;
                }
            });
        }
    });
    for (d, (c, a)) in hist.lock().unwrap().iter() {
        println!("{op} d={d} count={c} e.g. a={a:#x}");
    }
}
