//! Input generation: the shape lattice of a posit format (every regime, every exponent,
//! fraction classes, both signs), neighbours, ties, cancellation partners.
//! Nothing here is an oracle: these are bit utilities that *choose* inputs.
use rand::rngs::StdRng;
use rand::Rng;

pub fn mask(n: u32) -> u64 {
    if n >= 64 {
        u64::MAX
    } else {
        (1u64 << n) - 1
    }
}
pub fn nar(n: u32) -> u64 {
    1u64 << (n - 1)
}
pub fn neg(n: u32, p: u64) -> u64 {
    p.wrapping_neg() & mask(n)
}

/// number of fraction bits available at regime k
pub fn frac_bits(n: u32, es: u32, k: i32) -> u32 {
    let reglen = if k >= 0 { k + 2 } else { -k + 1 } as u32;
    (n - 1).saturating_sub(reglen + es)
}

/// positive pattern with regime k, exponent e, fraction f (low `frac_bits` bits used), by truncation
pub fn compose(n: u32, es: u32, k: i32, e: u32, f: u64) -> u64 {
    let nf = frac_bits(n, es, k);
    let (regbits, reglen): (u128, u32) = if k >= 0 {
        ((((1u128 << (k + 1)) - 1) << 1), (k + 2) as u32)
    } else {
        (1u128, (-k + 1) as u32)
    };
    let mut full: u128 = regbits;
    full = (full << es) | (e as u128 & ((1u128 << es) - 1));
    full = (full << nf) | (f as u128 & ((1u128 << nf) - 1));
    let len = reglen + es + nf;
    let body = if len > n - 1 { full >> (len - (n - 1)) } else { full << ((n - 1) - len) };
    let mut p = (body as u64) & mask(n - 1);
    if p == 0 {
        p = 1;
    }
    p
}

/// positive pattern for value 2^scale * (1 + f/2^nf) by truncation (f given left-aligned in 64 bits)
pub fn from_scale(n: u32, es: u32, scale: i32, frac_left: u64) -> u64 {
    let maxs = ((n - 2) << es) as i32;
    let s = scale.clamp(-maxs, maxs);
    let k = s.div_euclid(1 << es);
    let e = s.rem_euclid(1 << es) as u32;
    let nf = frac_bits(n, es, k);
    let f = if nf == 0 { 0 } else { frac_left >> (64 - nf) };
    compose(n, es, k, e, f)
}

/// (scale, fraction bits, fraction) of a non-zero non-NaR pattern
pub fn decode(n: u32, es: u32, p: u64) -> (bool, i32, u32, u64) {
    let sign = (p >> (n - 1)) & 1 == 1;
    let m = if sign { neg(n, p) } else { p };
    let r0 = (m >> (n - 2)) & 1;
    let mut run = 0u32;
    let mut i = n as i32 - 2;
    while i >= 0 && ((m >> i) & 1) == r0 {
        run += 1;
        i -= 1;
    }
    let k: i32 = if r0 == 1 { run as i32 - 1 } else { -(run as i32) };
    let nrem = (n - 2).saturating_sub(run);
    let ne = nrem.min(es);
    let nf = nrem - ne;
    let eb = if ne == 0 { 0 } else { ((m >> nf) & mask(ne)) << (es - ne) };
    let f = if nf == 0 { 0 } else { m & mask(nf) };
    (sign, k * (1 << es) + eb as i32, nf, f)
}

pub fn specials(n: u32) -> Vec<u64> {
    let one = 1u64 << (n - 2);
    let mut base = vec![0u64, nar(n), 1, mask(n - 1), one];
    if n >= 4 {
        base.push(one + (one >> 1)); // 2 or so
        base.push(one >> 1);
        base.push(one + (one >> 2));
    }
    let mut out = Vec::new();
    for &b in &base {
        for d in [0i64, 1, 2, -1, -2] {
            let p = (b as i64 + d) as u64 & mask(n);
            out.push(p);
            out.push(neg(n, p));
        }
    }
    out.sort();
    out.dedup();
    out
}

pub fn frac_classes(nf: u32, rng: &mut StdRng, nrand: usize) -> Vec<u64> {
    if nf == 0 {
        return vec![0];
    }
    let all = mask(nf);
    let msb = 1u64 << (nf - 1);
    let mut v = vec![0, 1, all, msb, msb | 1, msb - 1, all - 1, msb + (msb >> 1)];
    for _ in 0..nrand {
        v.push(rng.gen::<u64>() & all);
    }
    for x in v.iter_mut() {
        *x &= all;
    }
    v.sort();
    v.dedup();
    v
}

/// the S0 + S1 lattice
pub fn lattice(n: u32, es: u32, rng: &mut StdRng, nrand: usize) -> Vec<u64> {
    let mut out = specials(n);
    let kmax = n as i32 - 2;
    for k in -kmax..=kmax {
        for e in 0..(1u32 << es) {
            let nf = frac_bits(n, es, k);
            for f in frac_classes(nf, rng, nrand) {
                let p = compose(n, es, k, e, f);
                out.push(p);
                out.push(neg(n, p));
            }
        }
    }
    out.sort();
    out.dedup();
    out
}

pub fn random_pattern(n: u32, rng: &mut StdRng) -> u64 {
    rng.gen::<u64>() & mask(n)
}

/// a partner for `a` chosen to stress add/sub/fma: same scale, near cancellation, half-ulp ties, far
pub fn partner(n: u32, es: u32, a: u64, lat: &[u64], rng: &mut StdRng) -> u64 {
    if a == 0 || a == nar(n) {
        return lat[rng.gen_range(0..lat.len())];
    }
    let (sign, scale, nf, _f) = decode(n, es, a);
    let mode = rng.gen_range(0..100);
    let p = if mode < 30 {
        lat[rng.gen_range(0..lat.len())]
    } else if mode < 50 {
        // cancellation: -(a +- j ulp)
        let j = rng.gen_range(-4i64..=4);
        neg(n, ((a as i64 + j) as u64) & mask(n))
    } else if mode < 75 {
        // tie / near tie: half an ulp of a, times {1, 1.5, 1+lsb, 0.75..}
        let sh = rng.gen_range(0..3);
        let base = scale - nf as i32 - 1 - sh;
        let fl = match rng.gen_range(0..4) {
            0 => 0u64,
            1 => 1u64 << 63,
            2 => 1u64,
            _ => rng.gen::<u64>(),
        };
        let q = from_scale(n, es, base, fl);
        if rng.gen::<bool>() ^ sign {
            neg(n, q)
        } else {
            q
        }
    } else {
        // nearby scale with a fraction class
        let d = rng.gen_range(-(n as i32)..=(n as i32));
        let q = from_scale(n, es, scale + d, rng.gen::<u64>() & rng.gen::<u64>() | (rng.gen::<u64>() & 1) << 63);
        if rng.gen::<bool>() {
            neg(n, q)
        } else {
            q
        }
    };
    p & mask(n)
}

/// exact f64 value of a non-zero, non-NaR pattern of a format with n <= 33 (used to *choose*
/// float inputs at rounding boundaries; every posit of these formats is exactly an f64)
pub fn to_f64_exact(n: u32, es: u32, p: u64) -> f64 {
    let (sign, scale, nf, f) = decode(n, es, p);
    let m = 1.0 + (f as f64) / ((1u64 << nf) as f64);
    let v = m * 2f64.powi(scale);
    if sign {
        -v
    } else {
        v
    }
}

/// interesting integers of a given width
pub fn ints(w: u32, rng: &mut StdRng, nrand: usize) -> Vec<u64> {
    let m = mask(w);
    let mut v: Vec<u64> = Vec::new();
    for k in 0..w {
        let b = 1u64 << k;
        for d in [0i64, 1, -1, 2, -2, 3] {
            v.push((b as i64).wrapping_add(d) as u64 & m);
            v.push(((b as i64).wrapping_add(d) as u64).wrapping_neg() & m);
        }
        // odd multiples of half-units at the rounding position: (2j+1) * 2^(k-1) near 2^(k+p)
        for p in [3u32, 4, 5, 12, 13, 20, 27, 28, 29, 30] {
            if k + p < w && k >= 1 {
                let hi = 1u64 << (k + p);
                for j in [0u64, 1, 2, 3, (1 << p) - 1, (1 << p) - 2] {
                    let x = hi | (j << k) | (1 << (k - 1));
                    for d in [0i64, 1, -1] {
                        v.push((x as i64).wrapping_add(d) as u64 & m);
                    }
                }
            }
        }
    }
    for d in 0..4u64 {
        v.push(d);
        v.push(m - d);
        v.push((m >> 1).wrapping_sub(d) & m);
        v.push(((m >> 1) + 1 + d) & m);
    }
    // thresholds hard-coded in the crate +- 2
    for c in [2_147_483_135u64, 2_147_483_136, 4_294_966_271, 4_294_967_295, 9_222_809_086_901_354_495, 9_222_809_086_901_354_496,
              0xFFFB_FFFF_FFFF_FBFF, 0x0008_0000_0000_0000, 0x7FFF_FFFF_FFFF_FFFF, 49_151, 50_331_648, 8_388_608, 16_777_216, 48, 49, 96, 97] {
        for d in [-2i64, -1, 0, 1, 2] {
            let x = (c as i64).wrapping_add(d) as u64;
            v.push(x & m);
            v.push(x.wrapping_neg() & m);
        }
    }
    for _ in 0..nrand {
        let bits = rng.gen_range(1..=w);
        let x = rng.gen::<u64>() & mask(bits);
        v.push(x & m);
        v.push(x.wrapping_neg() & m);
    }
    v.sort();
    v.dedup();
    v
}

/// modular inverse of an odd u modulo 2^f (f <= 32)
pub fn inv_mod_pow2(u: u64, f: u32) -> u64 {
    let mut x: u64 = 1;
    for _ in 0..6 {
        x = x.wrapping_mul(2u64.wrapping_sub(u.wrapping_mul(x)));
    }
    x & mask(f)
}

/// "lone low bit" products: fractions u, v (f bits, both odd) with u*v = 1 (mod 2^f), so that
/// (1 + u/2^f)(1 + v/2^f) = 1 + w/2^f + 2^(j-2f): a run of zeros and then a single 1 near the very
/// bottom -- the only sticky information below bit f.  Returns (u, v, w, j).
pub fn lone_bit_pair(f: u32, rng: &mut StdRng) -> (u64, u64, u64, u32) {
    // u = 2^j u' (u' odd), v = u'^-1 mod 2^f:  u v = 2^j (1 + m 2^f), so the product is
    // 1 + (u + v + m 2^j)/2^f + 2^(j - 2f): the lone low bit sits j places above the very bottom
    let j = [0u32, 0, 1, 1, 2, 3][rng.gen_range(0..6)].min(f - 2);
    let u1 = (rng.gen::<u64>() & mask(f - j)) | 1;
    let u = u1 << j;
    let v = inv_mod_pow2(u1, f);
    let w = u + v + (((u1 * v) >> f) << j);
    (u, v, w, j)
}
