//! Differential screening.  Far more operand tuples than TLC could judge are run through the implementation and
//! compared with a second, cheap route to the same value (the f64 computation rounded by the type's own `from_f64`;
//! for the fused operations of P16E1 / P32E2 also the quire).  A disagreement decides nothing -- either route may be
//! the wrong one, and the f64 route is itself rounded twice -- it only selects the tuple: the operation is then
//! logged as an ordinary event and judged by the specification.  Agreement is not evidence and is reported only as
//! `screened`.
use crate::drive::Ctx;
use crate::fixed::Ty;
use crate::gdrive::gcall;
use crate::gen;
use crate::generic::exec_px_m;
use crate::guard::{guarded, set_current};
use crate::val::Val;
use crate::sink::Outcome;
use rand::Rng;
use softposit::{Quire, P16E1, P32E2, Q16E1, Q32E2};

pub const ARITH: [&str; 4] = ["add", "sub", "mul", "div"];
pub const FUSED: [&str; 3] = ["mul_add", "mul_sub", "sub_product"];

/// operands (n-bit patterns) aimed at alignment-sensitive cases of `op`
fn operands(ctx: &mut Ctx, n: u32, es: u32, op: &str) -> Vec<u64> {
    let f = gen::frac_bits(n, es, 0) as i32;
    let maxs = ((n - 2) << es) as i32;
    let rng = &mut ctx.rng;
    let sgn = |p: u64, neg: bool| if neg { gen::neg(n, p) } else { p };
    let sa = if rng.gen::<bool>() { rng.gen_range(-8..9) } else { rng.gen_range(-maxs..=maxs) };
    let a = gen::from_scale(n, es, sa, rng.gen::<u64>());
    match op {
        "sqrt" => vec![a],
        "add" | "sub" => {
            let sb = sa + rng.gen_range(-(f + 4)..=(f + 4));
            // now and then a fraction of all ones / a lone low bit, to provoke carries and sticky-only differences
            let fr = match rng.gen_range(0..6) {
                0 => u64::MAX << rng.gen_range(0..40),
                1 => 1u64 << rng.gen_range(20..64),
                _ => rng.gen::<u64>(),
            };
            let b = gen::from_scale(n, es, sb, fr);
            vec![sgn(a, rng.gen()), sgn(b, rng.gen())]
        }
        "mul" | "div" => {
            let sb = if rng.gen::<bool>() { rng.gen_range(-8..9) } else { rng.gen_range(-maxs..=maxs) };
            let b = gen::from_scale(n, es, sb, rng.gen::<u64>());
            vec![sgn(a, rng.gen()), sgn(b, rng.gen())]
        }
        _ => {
            let sb = rng.gen_range(-8..9);
            let b = gen::from_scale(n, es, sb, rng.gen::<u64>());
            let sc = sa + sb + rng.gen_range(-(2 * f + 8)..=(f + 8));
            let fr = match rng.gen_range(0..4) {
                0 => (u64::MAX << rng.gen_range(30..50)).wrapping_sub((rng.gen_range(0..4u64)) << 36),
                _ => rng.gen::<u64>(),
            };
            let c = gen::from_scale(n, es, sc, fr);
            let (a, b, c) = (sgn(a, rng.gen()), sgn(b, rng.gen()), sgn(c, rng.gen()));
            if op == "sub_product" { vec![c, a, b] } else { vec![a, b, c] }
        }
    }
}

fn f64_op(op: &str, v: &[f64]) -> f64 {
    match op {
        "add" => v[0] + v[1],
        "sub" => v[0] - v[1],
        "mul" => v[0] * v[1],
        "div" => v[0] / v[1],
        "sqrt" => v[0].sqrt(),
        "mul_add" => v[0].mul_add(v[1], v[2]),
        "mul_sub" => v[0].mul_add(v[1], -v[2]),
        "sub_product" => (-v[1]).mul_add(v[2], v[0]),
        _ => f64::NAN,
    }
}

fn quire32(op: &str, x: &[u64]) -> Option<u64> {
    let p = |i: usize| P32E2::from_bits(x[i] as u32);
    let one = P32E2::ONE;
    let mut q = Q32E2::init();
    match op {
        "add" => { q += (p(0), one); q += (p(1), one); }
        "sub" => { q += (p(0), one); q -= (p(1), one); }
        "mul" => { q += (p(0), p(1)); }
        "mul_add" => { q += (p(0), p(1)); q += (p(2), one); }
        "mul_sub" => { q += (p(0), p(1)); q -= (p(2), one); }
        "sub_product" => { q += (p(0), one); q -= (p(1), p(2)); }
        _ => return None,
    }
    Some(q.to_posit().to_bits() as u64)
}
fn quire16(op: &str, x: &[u64]) -> Option<u64> {
    let p = |i: usize| P16E1::from_bits(x[i] as u16);
    let one = P16E1::ONE;
    let mut q = Q16E1::init();
    match op {
        "add" => { q += (p(0), one); q += (p(1), one); }
        "sub" => { q += (p(0), one); q -= (p(1), one); }
        "mul" => { q += (p(0), p(1)); }
        "mul_add" => { q += (p(0), p(1)); q += (p(2), one); }
        "mul_sub" => { q += (p(0), p(1)); q -= (p(2), one); }
        "sub_product" => { q += (p(0), one); q -= (p(1), p(2)); }
        _ => return None,
    }
    Some(q.to_posit().to_bits() as u64)
}

const MAX_LOGGED: usize = 400;

/// fixed types (P16E1, P32E2; P8E0 is enumerated elsewhere)
pub fn screen_fixed(ctx: &mut Ctx, ty: &Ty, ops: &[&'static str], per_op: usize) {
    let (n, es) = (ty.n, ty.es);
    let sp_of = |op: &str| if ARITH.contains(&op) { "o" } else { "m" };
    for &op in ops {
        let mut logged = 0usize;
        for _ in 0..per_op {
            let x = operands(ctx, n, es, op);
            set_current(op, ty.name, sp_of(op), n, &x);
            let got = match guarded(|| (ty.exec)(op, sp_of(op), &x)) {
                Some(Outcome::Ok(v)) => v[0].u(),
                Some(Outcome::Panic { .. }) => u64::MAX,
                None => return,
            };
            ctx.sink.screened += 1;
            let v: Vec<f64> = x.iter().map(|&p| gen::to_f64_exact(n, es, p)).collect();
            let w = f64_op(op, &v);
            let via_f64 = match n {
                16 => P16E1::from_f64(w).to_bits() as u64,
                _ => P32E2::from_f64(w).to_bits() as u64,
            };
            let via_q = match guarded(|| (if n == 16 { quire16(op, &x) } else { quire32(op, &x) }).map(|b| vec![Val::U(b)])) {
                Some(Outcome::Ok(v)) => Some(v[0].u()),
                Some(Outcome::Panic { .. }) => Some(u64::MAX - 2),
                None => None,
            };
            let differs = got != via_f64 || via_q.map_or(false, |q| q != got);
            if differs && logged < MAX_LOGGED {
                logged += 1;
                *ctx.sink.per_op.entry(format!("screen-selected:{}.{}", ty.name, op)).or_insert(0) += 1;
                ctx.call(ty, op, sp_of(op), &x);
            }
        }
    }
}

/// generic types: every width, f64 route only
pub fn screen_generic(ctx: &mut Ctx, t: &'static str, n: u32, ops: &[&'static str], per_op: usize) {
    let es = if t == "x1" { 1 } else { 2 };
    let st = |p: u64| (p << (32 - n)) & 0xffff_ffff;
    let sp_of = |op: &str| if ARITH.contains(&op) { "o" } else { "m" };
    for &op in ops {
        if op == "sqrt" && t == "x1" {
            continue;
        }
        let mut logged = 0usize;
        for _ in 0..per_op {
            let x = operands(ctx, n, es, op);
            let xs: Vec<u64> = x.iter().map(|&p| st(p)).collect();
            set_current(op, t, sp_of(op), n, &xs);
            let got = match guarded(|| exec_px_m(t, n, 0, op, sp_of(op), &xs)) {
                Some(Outcome::Ok(v)) => v[0].u(),
                Some(Outcome::Panic { .. }) => u64::MAX,
                None => return,
            };
            ctx.sink.screened += 1;
            let v: Vec<f64> = x.iter().map(|&p| gen::to_f64_exact(n, es, p)).collect();
            let w = f64_op(op, &v);
            let via_f64 = match guarded(|| exec_px_m(t, n, 0, "from_f64", "m", &[w.to_bits()])) {
                Some(Outcome::Ok(v)) => v[0].u(),
                _ => u64::MAX - 1,
            };
            if got != via_f64 && logged < MAX_LOGGED {
                logged += 1;
                *ctx.sink.per_op.entry(format!("screen-selected:{}.{}", t, op)).or_insert(0) += 1;
                gcall(ctx, t, n, 0, op, sp_of(op), &xs);
            }
        }
    }
}
