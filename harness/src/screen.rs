//! Differential screening.  Far more operand tuples than TLC could judge are run through the implementation and
//! compared with a second, cheap route to the same value (the f64 computation rounded by the type's own `from_f64`;
//! for the fused operations of P16E1 / P32E2 also the quire).  A disagreement decides nothing -- either route may be
//! the wrong one, and the f64 route is itself rounded twice -- it only selects the tuple: the operation is then
//! logged as an ordinary event and judged by the specification.  Agreement is not evidence and is reported only as
//! `screened`.
use crate::drive::Ctx;
use crate::fixed::Ty;
use crate::gdrive::gcall;
use crate::gen;
use crate::generic::exec_px_m;
use crate::guard::{guarded, set_current};
use crate::val::Val;
use crate::sink::Outcome;
use rand::Rng;
use softposit::{Quire, P16E1, P32E2, Q16E1, Q32E2};

/// splitmix64: a cheap generator seeded per tuple index, so that a tuple can be regenerated from its index alone
pub struct Sm(pub u64);
impl rand::RngCore for Sm {
    fn next_u64(&mut self) -> u64 {
        self.0 = self.0.wrapping_add(0x9E37_79B9_7F4A_7C15);
        let mut z = self.0;
        z = (z ^ (z >> 30)).wrapping_mul(0xBF58_476D_1CE4_E5B9);
        z = (z ^ (z >> 27)).wrapping_mul(0x94D0_49BB_1331_11EB);
        z ^ (z >> 31)
    }
    fn next_u32(&mut self) -> u32 {
        (self.next_u64() >> 32) as u32
    }
    fn fill_bytes(&mut self, dest: &mut [u8]) {
        for c in dest.chunks_mut(8) {
            let w = self.next_u64().to_le_bytes();
            c.copy_from_slice(&w[..c.len()]);
        }
    }
    fn try_fill_bytes(&mut self, dest: &mut [u8]) -> Result<(), rand::Error> {
        self.fill_bytes(dest);
        Ok(())
    }
}

pub const ARITH: [&str; 4] = ["add", "sub", "mul", "div"];
pub const FUSED: [&str; 3] = ["mul_add", "mul_sub", "sub_product"];

/// operands (n-bit patterns) aimed at alignment-sensitive cases of `op`
fn operands<R: Rng>(rng: &mut R, n: u32, es: u32, op: &str) -> Vec<u64> {
    let f = gen::frac_bits(n, es, 0) as i32;
    let maxs = ((n - 2) << es) as i32;
    let sgn = |p: u64, neg: bool| if neg { gen::neg(n, p) } else { p };
    let sa = if rng.gen::<bool>() { rng.gen_range(-8..9) } else { rng.gen_range(-maxs..=maxs) };
    let a = gen::from_scale(n, es, sa, rng.gen::<u64>());
    match op {
        "sqrt" => vec![a],
        "add" | "sub" => {
            let sb = sa + rng.gen_range(-(f + 4)..=(f + 4));
            // now and then a fraction of all ones / a lone low bit, to provoke carries and sticky-only differences
            let fr = match rng.gen_range(0..6) {
                0 => u64::MAX << rng.gen_range(0..40),
                1 => 1u64 << rng.gen_range(20..64),
                _ => rng.gen::<u64>(),
            };
            let b = gen::from_scale(n, es, sb, fr);
            vec![sgn(a, rng.gen()), sgn(b, rng.gen())]
        }
        "mul" | "div" => {
            let sb = if rng.gen::<bool>() { rng.gen_range(-8..9) } else { rng.gen_range(-maxs..=maxs) };
            let b = gen::from_scale(n, es, sb, rng.gen::<u64>());
            vec![sgn(a, rng.gen()), sgn(b, rng.gen())]
        }
        _ => {
            let sb = rng.gen_range(-8..9);
            let b = gen::from_scale(n, es, sb, rng.gen::<u64>());
            let sc = sa + sb + rng.gen_range(-(2 * f + 8)..=(f + 8));
            let fr = match rng.gen_range(0..4) {
                0 => (u64::MAX << rng.gen_range(30..50)).wrapping_sub((rng.gen_range(0..4u64)) << 36),
                _ => rng.gen::<u64>(),
            };
            let c = gen::from_scale(n, es, sc, fr);
            let (a, b, mut c) = (sgn(a, rng.gen()), sgn(b, rng.gen()), sgn(c, rng.gen()));
            // one tuple in eight: the addend cancels the product to within an ulp (c = the truncation of a*b, signs
            // arranged so that the operation subtracts): the result is the tiny residual a*b - c
            if rng.gen_range(0..8) == 0 {
                let p = gen::to_f64_exact(n, es, a & gen::mask(n)).abs() * gen::to_f64_exact(n, es, b & gen::mask(n)).abs();
                if p.is_finite() && p > 0.0 {
                    let bits = p.to_bits();
                    let sc = ((bits >> 52) & 0x7ff) as i32 - 1023;
                    let t = gen::from_scale(n, es, sc, bits << 12);
                    // effective sign of the product vs the addend must differ
                    let neg_ab = (a >> (n - 1)) & 1 != (b >> (n - 1)) & 1;
                    let want_c_neg = match op { "mul_add" => !neg_ab, "mul_sub" => neg_ab, _ => neg_ab };
                    c = if want_c_neg { gen::neg(n, t) } else { t };
                }
            }
            if op == "sub_product" { vec![c, a, b] } else { vec![a, b, c] }
        }
    }
}

fn f64_op(op: &str, v: &[f64]) -> f64 {
    match op {
        "add" => v[0] + v[1],
        "sub" => v[0] - v[1],
        "mul" => v[0] * v[1],
        "div" => v[0] / v[1],
        "sqrt" => v[0].sqrt(),
        "mul_add" => v[0].mul_add(v[1], v[2]),
        "mul_sub" => v[0].mul_add(v[1], -v[2]),
        "sub_product" => (-v[1]).mul_add(v[2], v[0]),
        _ => f64::NAN,
    }
}

fn quire32(op: &str, x: &[u64]) -> Option<u64> {
    let p = |i: usize| P32E2::from_bits(x[i] as u32);
    let one = P32E2::ONE;
    let mut q = Q32E2::init();
    match op {
        "add" => { q += (p(0), one); q += (p(1), one); }
        "sub" => { q += (p(0), one); q -= (p(1), one); }
        "mul" => { q += (p(0), p(1)); }
        "mul_add" => { q += (p(0), p(1)); q += (p(2), one); }
        "mul_sub" => { q += (p(0), p(1)); q -= (p(2), one); }
        "sub_product" => { q += (p(0), one); q -= (p(1), p(2)); }
        _ => return None,
    }
    Some(q.to_posit().to_bits() as u64)
}
fn quire16(op: &str, x: &[u64]) -> Option<u64> {
    let p = |i: usize| P16E1::from_bits(x[i] as u16);
    let one = P16E1::ONE;
    let mut q = Q16E1::init();
    match op {
        "add" => { q += (p(0), one); q += (p(1), one); }
        "sub" => { q += (p(0), one); q -= (p(1), one); }
        "mul" => { q += (p(0), p(1)); }
        "mul_add" => { q += (p(0), p(1)); q += (p(2), one); }
        "mul_sub" => { q += (p(0), p(1)); q -= (p(2), one); }
        "sub_product" => { q += (p(0), one); q -= (p(1), p(2)); }
        _ => return None,
    }
    Some(q.to_posit().to_bits() as u64)
}

const MAX_LOGGED: usize = 400;

/// fixed types (P16E1, P32E2; P8E0 is enumerated elsewhere): `per_op` alignment-directed tuples per operation on all
/// cores; tuple i is generated from (seed, op, i) alone
pub fn screen_fixed(ctx: &mut Ctx, ty: &Ty, ops: &[&'static str], per_op: usize) {
    let (n, es) = (ty.n, ty.es);
    let sp_of = |op: &str| if ARITH.contains(&op) { "o" } else { "m" };
    let exec = ty.exec;
    for (oi, &op) in ops.iter().enumerate() {
        let base = ctx.seed.wrapping_mul(0x2545_F491_4F6C_DD1D) ^ ((n as u64) << 56) ^ ((oi as u64) << 48);
        let tuple = move |i: u64| operands(&mut Sm(base ^ i.wrapping_mul(0xD6E8_FEB8_6659_FD93)), n, es, op);
        set_current(op, ty.name, "sweep", n, &[per_op as u64]);
        let (total, sel) = par_sweep(per_op as u64, 1, 0, MAX_LOGGED, |i| {
            let x = tuple(i);
            let got = match exec(op, sp_of(op), &x) {
                Some(v) => v[0].u(),
                None => return false,
            };
            let v: Vec<f64> = x.iter().map(|&p| gen::to_f64_exact(n, es, p)).collect();
            let w = f64_op(op, &v);
            let via_f64 = match n {
                16 => P16E1::from_f64(w).to_bits() as u64,
                _ => P32E2::from_f64(w).to_bits() as u64,
            };
            let via_q = if n == 16 { quire16(op, &x) } else { quire32(op, &x) };
            got != via_f64 || via_q.map_or(false, |q| q != got)
        });
        ctx.sink.screened += total;
        for i in sel {
            *ctx.sink.per_op.entry(format!("screen-selected:{}.{}", ty.name, op)).or_insert(0) += 1;
            ctx.call(ty, op, sp_of(op), &tuple(i));
        }
    }
}

/// generic types: every width, f64 route only
pub fn screen_generic(ctx: &mut Ctx, t: &'static str, n: u32, ops: &[&'static str], per_op: usize) {
    let es = if t == "x1" { 1 } else { 2 };
    let st = move |p: u64| (p << (32 - n)) & 0xffff_ffff;
    let sp_of = |op: &str| if ARITH.contains(&op) { "o" } else { "m" };
    for (oi, &op) in ops.iter().enumerate() {
        if op == "sqrt" && t == "x1" {
            continue;
        }
        let base = ctx.seed.wrapping_mul(0x2545_F491_4F6C_DD1D) ^ ((n as u64) << 56) ^ ((oi as u64) << 48) ^ ((es as u64) << 40);
        let tuple = move |i: u64| operands(&mut Sm(base ^ i.wrapping_mul(0xD6E8_FEB8_6659_FD93)), n, es, op);
        set_current(op, t, "sweep", n, &[per_op as u64]);
        let (total, sel) = par_sweep(per_op as u64, 1, 0, MAX_LOGGED, |i| {
            let x = tuple(i);
            let xs: Vec<u64> = x.iter().map(|&p| st(p)).collect();
            let got = match exec_px_m(t, n, 0, op, sp_of(op), &xs) {
                Some(v) => v[0].u(),
                None => return false,
            };
            let v: Vec<f64> = x.iter().map(|&p| gen::to_f64_exact(n, es, p)).collect();
            let w = f64_op(op, &v);
            match exec_px_m(t, n, 0, "from_f64", "m", &[w.to_bits()]) {
                Some(r) => r[0].u() != got,
                None => false,
            }
        });
        ctx.sink.screened += total;
        for i in sel {
            *ctx.sink.per_op.entry(format!("screen-selected:{}.{}", t, op)).or_insert(0) += 1;
            let xs: Vec<u64> = tuple(i).iter().map(|&p| st(p)).collect();
            gcall(ctx, t, n, 0, op, sp_of(op), &xs);
        }
    }
}

// ---------------------------------------------------------------------------------------------------------------
// unary sweeps: a seeded coset of ALL 2^32 source patterns (P32E2 patterns, f32 patterns, 32-bit integers)
// ---------------------------------------------------------------------------------------------------------------
fn val32(p: u32) -> Option<f64> {
    if p == 0 {
        Some(0.0)
    } else if p == 0x8000_0000 {
        None
    } else {
        Some(gen::to_f64_exact(32, 2, p as u64))
    }
}

type Imp = fn(P32E2) -> u64;
type Ref = fn(f64) -> u64;
fn p32b(v: f64) -> u64 { P32E2::from_f64(v).to_bits() as u64 }

/// (op, spelling, implementation, f64 route)
const UNARY32: [(&str, &str, Imp, Ref); 19] = [
    ("to_f32", "m", |p| p.to_f32().to_bits() as u64, |v| (v as f32).to_bits() as u64),
    ("to_f64", "m", |p| p.to_f64().to_bits(), |v| v.to_bits()),
    ("to_i32", "m", |p| p.to_i32() as u32 as u64, |v| (v.round_ties_even() as i32) as u32 as u64),
    ("to_u32", "m", |p| p.to_u32() as u64, |v| (v.round_ties_even() as u32) as u64),
    ("to_i64", "m", |p| p.to_i64() as u64, |v| (v.round_ties_even() as i64) as u64),
    ("to_u64", "m", |p| p.to_u64(), |v| v.round_ties_even() as u64),
    ("round", "m", |p| p.round().to_bits() as u64, |v| p32b(v.round_ties_even())),
    ("floor", "m", |p| p.floor().to_bits() as u64, |v| p32b(v.floor())),
    ("ceil", "m", |p| p.ceil().to_bits() as u64, |v| p32b(v.ceil())),
    ("trunc", "m", |p| p.trunc().to_bits() as u64, |v| p32b(v.trunc())),
    ("fract", "m", |p| p.fract().to_bits() as u64, |v| p32b(v - v.trunc())),
    ("sqrt", "m", |p| p.sqrt().to_bits() as u64, |v| p32b(v.sqrt())),
    ("to_p16", "f", |p| P16E1::from(p).to_bits() as u64, |v| P16E1::from_f64(v).to_bits() as u64),
    ("to_p8", "f", |p| softposit::P8E0::from(p).to_bits() as u64, |v| softposit::P8E0::from_f64(v).to_bits() as u64),
    ("recip", "m", |p| num_traits::Float::recip(p).to_bits() as u64, |v| p32b(1.0 / v)),
    ("abs", "m", |p| p.abs().to_bits() as u64, |v| p32b(v.abs())),
    ("neg", "m", |p| P32E2::neg(p).to_bits() as u64, |v| p32b(-v)),
    // round trips: the route is the pattern itself (recovered from the exact value)
    ("f64_roundtrip", "m", |p| P32E2::from(f64::from(p)).to_bits() as u64, |v| p32b(v)),
    ("str_roundtrip", "m", |p| match format!("{}", p).parse::<P32E2>() { Ok(q) => q.to_bits() as u64, Err(_) => u64::MAX - 5 }, |v| p32b(v)),
];

/// Run `differs(i)` for i = off, off + stride, ... < limit on all cores; returns the (sorted, capped) inputs selected.
pub fn par_sweep<F: Fn(u64) -> bool + Sync>(limit: u64, stride: u64, off: u64, cap: usize, differs: F) -> (u64, Vec<u64>) {
    let nthreads = std::thread::available_parallelism().map(|n| n.get()).unwrap_or(4).min(16) as u64;
    let total = if off < limit { (limit - off + stride - 1) / stride } else { 0 };
    let mut sel: Vec<u64> = Vec::new();
    crate::guard::IN_CALL.store(true, std::sync::atomic::Ordering::Relaxed);
    std::thread::scope(|sc| {
        let mut hs = Vec::new();
        for t in 0..nthreads {
            let differs = &differs;
            hs.push(sc.spawn(move || {
                let mut out = Vec::new();
                let mut k = t;
                while k < total {
                    let i = off + k * stride;
                    let d = std::panic::catch_unwind(std::panic::AssertUnwindSafe(|| differs(i))).unwrap_or(true);
                    if d && out.len() < cap {
                        out.push(i);
                    }
                    if (k / nthreads) % 4096 == 0 {
                        // (every thread reports: any one of them may be the last to finish)
                        crate::guard::PROGRESS.fetch_add(1, std::sync::atomic::Ordering::Relaxed);
                    }
                    k += nthreads;
                }
                out
            }));
        }
        for h in hs {
            sel.extend(h.join().unwrap_or_default());
        }
    });
    crate::guard::IN_CALL.store(false, std::sync::atomic::Ordering::Relaxed);
    sel.sort();
    sel.truncate(cap);
    (total, sel)
}

/// Like `par_sweep`, but keeps the `k` inputs with the highest score (None = not comparable / outside the domain).
pub fn par_top<F: Fn(u64) -> Option<i64> + Sync>(limit: u64, stride: u64, off: u64, k: usize, score: F) -> (u64, Vec<(i64, u64)>) {
    let nthreads = std::thread::available_parallelism().map(|n| n.get()).unwrap_or(4).min(16) as u64;
    let total = if off < limit { (limit - off + stride - 1) / stride } else { 0 };
    let mut all: Vec<(i64, u64)> = Vec::new();
    let mut counted = 0u64;
    crate::guard::IN_CALL.store(true, std::sync::atomic::Ordering::Relaxed);
    std::thread::scope(|sc| {
        let mut hs = Vec::new();
        for t in 0..nthreads {
            let score = &score;
            hs.push(sc.spawn(move || {
                let mut out: Vec<(i64, u64)> = Vec::new();
                let mut cnt = 0u64;
                let mut floor = 1i64; // scores below this cannot enter the top k any more
                let mut j = t;
                while j < total {
                    let i = off + j * stride;
                    // a panic inside the library is the most interesting outcome of all
                    let d = std::panic::catch_unwind(std::panic::AssertUnwindSafe(|| score(i))).unwrap_or(Some(i64::MAX));
                    if let Some(d) = d {
                        cnt += 1;
                        if d >= floor {
                            out.push((d, i));
                            if out.len() > 4 * k.max(8) {
                                out.sort_by(|x, y| y.0.cmp(&x.0));
                                out.truncate(k);
                                floor = out.last().map(|e| e.0).unwrap_or(1);
                            }
                        }
                    }
                    if (j / nthreads) % 4096 == 0 {
                        crate::guard::PROGRESS.fetch_add(1, std::sync::atomic::Ordering::Relaxed);
                    }
                    j += nthreads;
                }
                (cnt, out)
            }));
        }
        for h in hs {
            if let Ok((c, o)) = h.join() {
                counted += c;
                all.extend(o);
            }
        }
    });
    crate::guard::IN_CALL.store(false, std::sync::atomic::Ordering::Relaxed);
    all.sort_by(|x, y| y.0.cmp(&x.0).then(x.1.cmp(&y.1)));
    all.truncate(k);
    (counted, all)
}

/// every `2^(32-log2n)`-th P32E2 pattern (offset by the seed; log2n = 32: all of them) through the listed unary operations
pub fn screen_unary32(ctx: &mut Ctx, ty: &Ty, ops: &[&'static str], log2n: u32) {
    let stride = 1u64 << (32 - log2n);
    let off = ctx.seed.wrapping_mul(0x9E37_79B9_7F4A_7C15) % stride;
    for &(op, sp, imp, rf) in UNARY32.iter().filter(|e| ops.contains(&e.0)) {
        set_current(op, ty.name, "sweep", 32, &[off, stride]);
        let (total, sel) = par_sweep(1u64 << 32, stride, off, MAX_LOGGED, |p| match val32(p as u32) {
            None => false,
            Some(v) => !(op == "sqrt" && v < 0.0) && imp(P32E2::from_bits(p as u32)) != rf(v),
        });
        ctx.sink.screened += total;
        for p in sel {
            *ctx.sink.per_op.entry(format!("screen-selected:{}.{}", ty.name, op)).or_insert(0) += 1;
            ctx.call(ty, op, sp, &[p]);
        }
    }
}

/// P16E1 operand pairs: a seeded coset of all 2^32 pairs (log2n = 32: every pair) through + - * / against the f64
/// route (exact for 13-bit significands: one rounding)
pub fn screen_p16_pairs(ctx: &mut Ctx, ty: &Ty, log2n: u32) {
    let stride = 1u64 << (32 - log2n);
    let off = ctx.seed.wrapping_mul(0xA24B_AED4_963E_E407) % stride;
    type Op16 = fn(P16E1, P16E1) -> P16E1;
    let ops: [(&'static str, Op16, fn(f64, f64) -> f64); 4] =
        [("add", |a, b| P16E1::add(a, b), |a, b| a + b), ("sub", |a, b| P16E1::sub(a, b), |a, b| a - b), ("mul", |a, b| P16E1::mul(a, b), |a, b| a * b), ("div", |a, b| P16E1::div(a, b), |a, b| a / b)];
    // (the const-method spellings: the operator forwarders carry the cfg(softposit_verif) hook, whose mutex would serialise the threads)
    let val16 = |p: u16| -> Option<f64> {
        if p == 0 { Some(0.0) } else if p == 0x8000 { None } else { Some(gen::to_f64_exact(16, 1, p as u64)) }
    };
    for (op, imp, rf) in ops {
        set_current(op, ty.name, "sweep", 16, &[off, stride]);
        let (total, sel) = par_sweep(1u64 << 32, stride, off, MAX_LOGGED, |w| {
            let (a, b) = ((w >> 16) as u16, w as u16);
            match (val16(a), val16(b)) {
                (Some(x), Some(y)) => {
                    let want = rf(x, y);
                    let wb = if want.is_nan() { 0x8000 } else { P16E1::from_f64(want).to_bits() };
                    imp(P16E1::from_bits(a), P16E1::from_bits(b)).to_bits() != wb
                }
                _ => false,
            }
        });
        ctx.sink.screened += total;
        for w in sel {
            *ctx.sink.per_op.entry(format!("screen-selected:{}.{}", ty.name, op)).or_insert(0) += 1;
            ctx.call(ty, op, "m", &[w >> 16, w & 0xffff]);
        }
    }
}

/// 32-bit sources into each fixed posit type: f32 patterns (route: the same value widened to f64 through
/// `from_f64`) and i32 / u32 values (route: the exactly converted f64 through `from_f64`)
pub fn screen_from32(ctx: &mut Ctx, tys: &[&'static Ty], ops: &[&'static str], log2n: u32) {
    let stride = 1u64 << (32 - log2n);
    let off = ctx.seed.wrapping_mul(0xD1B5_4A32_D192_ED03) % stride;
    for ty in tys {
        for &op in ops {
            set_current(op, ty.name, "sweep", ty.n, &[off, stride]);
            let exec = ty.exec;
            let run = move |o: &str, x: u64| -> u64 {
                match std::panic::catch_unwind(|| exec(o, "m", &[x])) {
                    Ok(Some(v)) => v[0].u(),
                    Ok(None) => u64::MAX - 3,
                    Err(_) => u64::MAX,
                }
            };
            let (total, sel) = par_sweep(1u64 << 32, stride, off, MAX_LOGGED, |w| {
                let wide: f64 = match op {
                    "from_f32" => f32::from_bits(w as u32) as f64,
                    "from_i32" => (w as u32 as i32) as f64,
                    _ => (w as u32) as f64,
                };
                run(op, w) != run("from_f64", wide.to_bits())
            });
            ctx.sink.screened += total;
            for w in sel {
                *ctx.sink.per_op.entry(format!("screen-selected:{}.{}", ty.name, op)).or_insert(0) += 1;
                ctx.call(ty, op, "m", &[w]);
            }
        }
    }
}

/// 64-bit integer sources (route: `from_f64` of the f64 nearest the integer -- rounded twice, so only a pointer)
pub fn screen_from64(ctx: &mut Ctx, tys: &[&'static Ty], per_op: usize) {
    for ty in tys {
        for op in ["from_i64", "from_u64"] {
            let mut logged = 0usize;
            for _ in 0..per_op {
                // magnitude classes: every bit length equally likely, dense / sparse low bits
                let bl = ctx.rng.gen_range(1..=64u32);
                let mut w = ctx.rng.gen::<u64>() >> (64 - bl) | (1u64 << (bl - 1));
                match ctx.rng.gen_range(0..4) {
                    0 => w &= !0u64 << ctx.rng.gen_range(0..bl),
                    1 => w |= (1u64 << ctx.rng.gen_range(0..bl)) - 1,
                    _ => {}
                }
                if op == "from_i64" && ctx.rng.gen::<bool>() {
                    w = w.wrapping_neg();
                }
                let wide = if op == "from_i64" { (w as i64) as f64 } else { w as f64 };
                let x = [w];
                set_current(op, ty.name, "m", ty.n, &x);
                let got = match guarded(|| (ty.exec)(op, "m", &x)) {
                    Some(Outcome::Ok(v)) => v[0].u(),
                    Some(Outcome::Panic { .. }) => u64::MAX,
                    None => break,
                };
                let via = match guarded(|| (ty.exec)("from_f64", "m", &[wide.to_bits()])) {
                    Some(Outcome::Ok(v)) => v[0].u(),
                    _ => u64::MAX - 1,
                };
                ctx.sink.screened += 1;
                if got != via && logged < MAX_LOGGED {
                    logged += 1;
                    *ctx.sink.per_op.entry(format!("screen-selected:{}.{}", ty.name, op)).or_insert(0) += 1;
                    ctx.call(ty, op, "m", &x);
                }
            }
        }
    }
}

// ---------------------------------------------------------------------------------------------------------------
// generic-width conversions (C14): every width, both exponent sizes
// ---------------------------------------------------------------------------------------------------------------
fn gx(t: &str, n: u32, m: u32, op: &str, sp: &str, x: &[u64]) -> u64 {
    set_current("screen", "x", "m", n, x);
    match guarded(|| exec_px_m(t, n, m, op, sp, x)) {
        Some(Outcome::Ok(v)) => v[0].u(),
        Some(Outcome::Panic { .. }) => u64::MAX,
        None => u64::MAX - 7,
    }
}

pub fn screen_generic_conv(ctx: &mut Ctx, t: &'static str, n: u32, log2n: u32) {
    let es = if t == "x1" { 1 } else { 2 };
    let other: &'static str = if t == "x1" { "x2" } else { "x1" };
    let st = |p: u64| (p << (32 - n)) & 0xffff_ffff;
    let mut logged = std::collections::HashMap::<&'static str, usize>::new();
    let mut select = |ctx: &mut Ctx, op: &'static str, sp: &'static str, m: u32, x: &[u64], differs: bool| {
        ctx.sink.screened += 1;
        let c = logged.entry(op).or_insert(0);
        if differs && *c < 120 {
            *c += 1;
            *ctx.sink.per_op.entry(format!("screen-selected:{}.{}", t, op)).or_insert(0) += 1;
            gcall(ctx, t, n, m, op, sp, x);
        }
    };
    // --- generic -> everything: all patterns (n <= log2n) or a seeded coset
    let count = 1u64 << n.min(log2n);
    let stride = (1u64 << n) / count;
    let off = ctx.seed.wrapping_mul(0x9E37_79B9_7F4A_7C15) % stride;
    for i in 0..count {
        let p = i * stride + off;
        if p == 0 || p == gen::nar(n) {
            continue;
        }
        let s = [st(p)];
        let v = gen::to_f64_exact(n, es, p);
        let r = v.round_ties_even();
        select(ctx, "to_f64", "m", 0, &s, gx(t, n, 0, "to_f64", "m", &s) != v.to_bits());
        select(ctx, "to_f32", "m", 0, &s, gx(t, n, 0, "to_f32", "m", &s) != (v as f32).to_bits() as u64);
        select(ctx, "to_i32", "m", 0, &s, gx(t, n, 0, "to_i32", "m", &s) != (r as i32) as u32 as u64);
        select(ctx, "to_u32", "m", 0, &s, gx(t, n, 0, "to_u32", "m", &s) != (r as u32) as u64);
        select(ctx, "to_i64", "m", 0, &s, gx(t, n, 0, "to_i64", "m", &s) != (r as i64) as u64);
        select(ctx, "to_u64", "m", 0, &s, gx(t, n, 0, "to_u64", "m", &s) != r as u64);
        select(ctx, "to_p8", "f", 0, &s, gx(t, n, 0, "to_p8", "f", &s) != softposit::P8E0::from_f64(v).to_bits() as u64);
        select(ctx, "to_p16", "f", 0, &s, gx(t, n, 0, "to_p16", "f", &s) != P16E1::from_f64(v).to_bits() as u64);
        select(ctx, "to_p32", "f", 0, &s, gx(t, n, 0, "to_p32", "f", &s) != P32E2::from_f64(v).to_bits() as u64);
        select(ctx, "round", "m", 0, &s, gx(t, n, 0, "round", "m", &s) != gx(t, n, 0, "from_f64", "m", &[r.to_bits()]));
        let m = 2 + ((i as u32).wrapping_mul(7) + n) % 31;
        let via = gx(other, m, 0, "from_f64", "m", &[v.to_bits()]);
        select(ctx, "to_x", "f", m, &s, gx(t, n, m, "to_x", "f", &s) != via);
    }
    // --- 32-bit sources -> generic: f32 patterns, i32 / u32 values, P32E2 patterns; P16E1: all
    let cnt = 1u64 << log2n;
    let stride = (1u64 << 32) / cnt;
    let off = ctx.seed.wrapping_mul(0xD1B5_4A32_D192_ED03).wrapping_add(n as u64 * 977) % stride;
    for i in 0..cnt {
        let w = i * stride + off;
        let x = [w];
        let f = f32::from_bits(w as u32) as f64;
        select(ctx, "from_f32", "m", 0, &x, gx(t, n, 0, "from_f32", "m", &x) != gx(t, n, 0, "from_f64", "m", &[f.to_bits()]));
        let iv = (w as u32 as i32) as f64;
        select(ctx, "from_i32", "m", 0, &x, gx(t, n, 0, "from_i32", "m", &x) != gx(t, n, 0, "from_f64", "m", &[iv.to_bits()]));
        if t == "x2" {
            let uv = (w as u32) as f64;
            select(ctx, "from_u32", "m", 0, &x, gx(t, n, 0, "from_u32", "m", &x) != gx(t, n, 0, "from_f64", "m", &[uv.to_bits()]));
        }
        if let Some(pv) = val32(w as u32) {
            select(ctx, "from_p32", "f", 0, &x, gx(t, n, 0, "from_p32", "f", &x) != gx(t, n, 0, "from_f64", "m", &[pv.to_bits()]));
        }
        let h = w >> 16;
        if h != 0 && h != 0x8000 {
            let pv = gen::to_f64_exact(16, 1, h);
            select(ctx, "from_p16", "f", 0, &[h], gx(t, n, 0, "from_p16", "f", &[h]) != gx(t, n, 0, "from_f64", "m", &[pv.to_bits()]));
        }
    }
}
