//! PxE1<N> / PxE2<N>, N in 2..=32 (filled in later)
use crate::quire::QAny;
use crate::sink::Outcome;
use crate::val::Val;
pub fn exec_px(_t: &str, _n: u32, _op: &str, _sp: &str, _x: &[u64]) -> Option<Vec<Val>> {
    None
}
pub fn q_exec_px(_q: &mut QAny, _t: &str, _n: u32, _op: &str, _sp: &str, _x: &[u64], _bs: &[u64], _big: &[u64]) -> Option<Vec<Val>> {
    None
}
#[allow(dead_code)]
fn _unused(_: Outcome) {}
