//! PxE1<N> / PxE2<N>, N in 2..=32: every width instantiated; values are the 32-bit left-aligned storage.
use crate::quire::QAny;
use crate::val::Val;
use core::cmp::Ordering;
use softposit::{PxE1, PxE2, Quire, P16E1, P32E2, P8E0, Q32E2};

fn ord(o: Ordering) -> Val {
    Val::I(match o {
        Ordering::Less => -1,
        Ordering::Equal => 0,
        Ordering::Greater => 1,
    })
}

macro_rules! px_exec {
    ($fname:ident, $P:ident, { $($extra:tt)* }, $p:ident, $rp:ident, $x:ident) => {
        #[allow(unreachable_patterns)]
        fn $fname<const N: u32>(op: &str, sp: &str, $x: &[u64]) -> Option<Vec<Val>> {
            let $p = |i: usize| $P::<N>::from_bits($x[i] as u32);
            let $rp = |v: $P<N>| Some(vec![Val::U(v.to_bits() as u64)]);
            let rb = |v: bool| Some(vec![Val::B(v)]);
            let ru = |v: u64| Some(vec![Val::U(v)]);
            let (p, rp, x) = (&$p, &$rp, $x);
            match (op, sp) {
                ("add", "o") => rp(p(0) + p(1)),
                ("sub", "o") => rp(p(0) - p(1)),
                ("mul", "o") => rp(p(0) * p(1)),
                ("div", "o") => rp(p(0) / p(1)),
                ("add", "a") => { let mut a = p(0); a += p(1); rp(a) }
                ("sub", "a") => { let mut a = p(0); a -= p(1); rp(a) }
                ("mul", "a") => { let mut a = p(0); a *= p(1); rp(a) }
                ("div", "a") => { let mut a = p(0); a /= p(1); rp(a) }
                ("neg", "o") => rp(-p(0)),
                ("mul_add", "m") => rp(p(0).mul_add(p(1), p(2))),
                ("mul_sub", "m") => rp(p(0).mul_sub(p(1), p(2))),
                ("sub_product", "m") => rp(p(0).sub_product(p(1), p(2))),
                ("round", "m") => rp($P::<N>::round(p(0))),
                ("eq", "m") => rb($P::<N>::eq(p(0), p(1))),
                ("eq", "o") => rb(p(0) == p(1)),
                ("ne", "o") => rb(p(0) != p(1)),
                ("lt", "m") => rb($P::<N>::lt(&p(0), p(1))),
                ("le", "m") => rb($P::<N>::le(&p(0), p(1))),
                ("gt", "m") => rb($P::<N>::gt(&p(0), p(1))),
                ("ge", "m") => rb($P::<N>::ge(&p(0), p(1))),
                ("lt", "o") => rb(p(0) < p(1)),
                ("le", "o") => rb(p(0) <= p(1)),
                ("gt", "o") => rb(p(0) > p(1)),
                ("ge", "o") => rb(p(0) >= p(1)),
                ("cmp", "m") => Some(vec![ord($P::<N>::cmp(p(0), p(1)))]),
                ("cmp", "o") => Some(vec![ord(Ord::cmp(&p(0), &p(1)))]),
                ("partial_cmp", "o") => Some(vec![match PartialOrd::partial_cmp(&p(0), &p(1)) { Some(o) => ord(o), None => Val::I(2) }]),
                ("min", "o") => rp(Ord::min(p(0), p(1))),
                ("max", "o") => rp(Ord::max(p(0), p(1))),
                ("clamp", "o") => rp(Ord::clamp(p(0), p(1), p(2))),
                ("is_zero", "m") => rb(p(0).is_zero()),
                ("is_nar", "m") => rb(p(0).is_nar()),
                ("const", _) => rp(match sp { "ZERO" => $P::<N>::ZERO, "ONE" => $P::<N>::ONE, "NAR" => $P::<N>::NAR, "default" => $P::<N>::default(), _ => return None }),
                ("new", "m") => rp($P::<N>::new(x[0] as u32 as i32)),
                ("from_f32", "m") => rp($P::<N>::from_f32(f32::from_bits(x[0] as u32))),
                ("from_f64", "m") => rp($P::<N>::from_f64(f64::from_bits(x[0]))),
                ("from_f32", "f") => rp(<$P<N> as From<f32>>::from(f32::from_bits(x[0] as u32))),
                ("from_f64", "f") => rp(<$P<N> as From<f64>>::from(f64::from_bits(x[0]))),
                ("to_f32", "m") => ru(p(0).to_f32().to_bits() as u64),
                ("to_f64", "m") => ru(p(0).to_f64().to_bits()),
                ("to_f32", "f") => ru(f32::from(p(0)).to_bits() as u64),
                ("to_f64", "f") => ru(f64::from(p(0)).to_bits()),
                ("from_i32", "m") => rp($P::<N>::from_i32(x[0] as i32)),
                ("from_u64", "m") => rp($P::<N>::from_u64(x[0])),
                ("from_i32", "f") => rp(<$P<N> as From<i32>>::from(x[0] as i32)),
                ("from_u64", "f") => rp(<$P<N> as From<u64>>::from(x[0])),
                ("to_i32", "m") => ru(p(0).to_i32() as u32 as u64),
                ("to_u32", "m") => ru(p(0).to_u32() as u64),
                ("to_i64", "m") => ru(p(0).to_i64() as u64),
                ("to_u64", "m") => ru(p(0).to_u64()),
                ("to_i32", "f") => ru(i32::from(p(0)) as u32 as u64),
                ("to_u32", "f") => ru(u32::from(p(0)) as u64),
                ("to_i64", "f") => ru(i64::from(p(0)) as u64),
                ("to_u64", "f") => ru(u64::from(p(0))),
                ("to_p8", "f") => ru(P8E0::from(p(0)).to_bits() as u64),
                ("to_p16", "f") => ru(P16E1::from(p(0)).to_bits() as u64),
                ("to_p32", "f") => ru(P32E2::from(p(0)).to_bits() as u64),
                ("from_p8", "f") => rp($P::<N>::from(P8E0::from_bits(x[0] as u8))),
                ("from_p16", "f") => rp($P::<N>::from(P16E1::from_bits(x[0] as u16))),
                ("from_p32", "f") => rp($P::<N>::from(P32E2::from_bits(x[0] as u32))),
                $($extra)*
                _ => None,
            }
        }
    };
}

px_exec!(exec_x2n, PxE2, {
    ("sqrt", "m") => rp(p(0).sqrt()),
    ("from_u32", "m") => rp(PxE2::<N>::from_u32(x[0] as u32)),
    ("from_i64", "m") => rp(PxE2::<N>::from_i64(x[0] as i64)),
    ("from_u32", "f") => rp(<PxE2<N> as From<u32>>::from(x[0] as u32)),
    ("from_i64", "f") => rp(<PxE2<N> as From<i64>>::from(x[0] as i64)),
}, p, rp, x);
px_exec!(exec_x1n, PxE1, {}, p, rp, x);

macro_rules! dispatch_n {
    ($n:expr, $f:ident, $($a:expr),*) => {
        match $n {
            2 => $f::<2>($($a),*), 3 => $f::<3>($($a),*), 4 => $f::<4>($($a),*), 5 => $f::<5>($($a),*),
            6 => $f::<6>($($a),*), 7 => $f::<7>($($a),*), 8 => $f::<8>($($a),*), 9 => $f::<9>($($a),*),
            10 => $f::<10>($($a),*), 11 => $f::<11>($($a),*), 12 => $f::<12>($($a),*), 13 => $f::<13>($($a),*),
            14 => $f::<14>($($a),*), 15 => $f::<15>($($a),*), 16 => $f::<16>($($a),*), 17 => $f::<17>($($a),*),
            18 => $f::<18>($($a),*), 19 => $f::<19>($($a),*), 20 => $f::<20>($($a),*), 21 => $f::<21>($($a),*),
            22 => $f::<22>($($a),*), 23 => $f::<23>($($a),*), 24 => $f::<24>($($a),*), 25 => $f::<25>($($a),*),
            26 => $f::<26>($($a),*), 27 => $f::<27>($($a),*), 28 => $f::<28>($($a),*), 29 => $f::<29>($($a),*),
            30 => $f::<30>($($a),*), 31 => $f::<31>($($a),*), 32 => $f::<32>($($a),*),
            _ => None,
        }
    };
}

// generic <-> generic (the crate only converts across exponent sizes): source width N, target width M
fn x2_to_x1<const N: u32, const M: u32>(x: u64) -> Option<Vec<Val>> {
    Some(vec![Val::U(PxE1::<M>::from(PxE2::<N>::from_bits(x as u32)).to_bits() as u64)])
}
fn x1_to_x2<const N: u32, const M: u32>(x: u64) -> Option<Vec<Val>> {
    Some(vec![Val::U(PxE2::<M>::from(PxE1::<N>::from_bits(x as u32)).to_bits() as u64)])
}
macro_rules! dispatch_m {
    ($m:expr, $f:ident, $N:ident, $x:expr) => {
        match $m {
            2 => $f::<$N, 2>($x), 3 => $f::<$N, 3>($x), 4 => $f::<$N, 4>($x), 5 => $f::<$N, 5>($x), 6 => $f::<$N, 6>($x),
            7 => $f::<$N, 7>($x), 8 => $f::<$N, 8>($x), 9 => $f::<$N, 9>($x), 10 => $f::<$N, 10>($x), 11 => $f::<$N, 11>($x),
            12 => $f::<$N, 12>($x), 13 => $f::<$N, 13>($x), 14 => $f::<$N, 14>($x), 15 => $f::<$N, 15>($x), 16 => $f::<$N, 16>($x),
            17 => $f::<$N, 17>($x), 18 => $f::<$N, 18>($x), 19 => $f::<$N, 19>($x), 20 => $f::<$N, 20>($x), 21 => $f::<$N, 21>($x),
            22 => $f::<$N, 22>($x), 23 => $f::<$N, 23>($x), 24 => $f::<$N, 24>($x), 25 => $f::<$N, 25>($x), 26 => $f::<$N, 26>($x),
            27 => $f::<$N, 27>($x), 28 => $f::<$N, 28>($x), 29 => $f::<$N, 29>($x), 30 => $f::<$N, 30>($x), 31 => $f::<$N, 31>($x),
            32 => $f::<$N, 32>($x),
            _ => None,
        }
    };
}
fn x2_to_x1_n<const N: u32>(m: u32, x: u64) -> Option<Vec<Val>> {
    dispatch_m!(m, x2_to_x1, N, x)
}
fn x1_to_x2_n<const N: u32>(m: u32, x: u64) -> Option<Vec<Val>> {
    dispatch_m!(m, x1_to_x2, N, x)
}

/// `m`: target width for the generic-to-generic conversions (op "to_x")
pub fn exec_px_m(t: &str, n: u32, m: u32, op: &str, sp: &str, x: &[u64]) -> Option<Vec<Val>> {
    if op == "to_x" {
        return if t == "x2" { dispatch_n!(n, x2_to_x1_n, m, x[0]) } else { dispatch_n!(n, x1_to_x2_n, m, x[0]) };
    }
    exec_px(t, n, op, sp, x)
}

pub fn exec_px(t: &str, n: u32, op: &str, sp: &str, x: &[u64]) -> Option<Vec<Val>> {
    match t {
        "x2" => dispatch_n!(n, exec_x2n, op, sp, x),
        "x1" => dispatch_n!(n, exec_x1n, op, sp, x),
        _ => None,
    }
}

// ---- Q32E2 used with PxE2<N>
fn q_x2n<const N: u32>(q: &mut Q32E2, op: &str, sp: &str, x: &[u64]) -> Option<Vec<Val>> {
    let p = |i: usize| PxE2::<N>::from_bits(x[i] as u32);
    match (op, sp) {
        ("q_init", _) => { *q = <Q32E2 as Quire<PxE2<N>>>::init(); Some(vec![]) }
        ("q_clear", _) => { <Q32E2 as Quire<PxE2<N>>>::clear(q); Some(vec![]) }
        ("q_neg", _) => { <Q32E2 as Quire<PxE2<N>>>::neg(q); Some(vec![]) }
        ("q_add", "pp") => { *q += (p(0), p(1)); Some(vec![]) }
        ("q_sub", "pp") => { *q -= (p(0), p(1)); Some(vec![]) }
        ("q_add", "tr") => { <Q32E2 as Quire<PxE2<N>>>::add_product(q, p(0), p(1)); Some(vec![]) }
        ("q_sub", "tr") => { <Q32E2 as Quire<PxE2<N>>>::sub_product(q, p(0), p(1)); Some(vec![]) }
        ("q_add", "p") => { *q += p(0); Some(vec![]) }
        ("q_sub", "p") => { *q -= p(0); Some(vec![]) }
        ("q_from_posit", "tr") => { *q = <Q32E2 as Quire<PxE2<N>>>::from_posit(p(0)); Some(vec![]) }
        ("q_from_posit", "f") => { *q = Q32E2::from(p(0)); Some(vec![]) }
        ("q_to_posit", "tr") => Some(vec![Val::U(<Q32E2 as Quire<PxE2<N>>>::to_posit(q).to_bits() as u64)]),
        ("q_to_posit", "fr") => Some(vec![Val::U(PxE2::<N>::from(&*q).to_bits() as u64)]),
        _ => None,
    }
}

pub fn q_exec_px(q: &mut QAny, t: &str, n: u32, op: &str, sp: &str, x: &[u64], _bs: &[u64], _big: &[u64]) -> Option<Vec<Val>> {
    if t != "x2" {
        return None;
    }
    match q {
        QAny::Q32(q) => dispatch_n!(n, q_x2n, q, op, sp, x),
        _ => None,
    }
}
