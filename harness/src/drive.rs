//! The driver: seeded suites of calls against the real library, one ndjson event per call.
use crate::fixed::{Ty, FIXED, P16T, P32T, P8T};
use crate::gen;
use crate::guard::{guarded, set_current};
use crate::sink::{event, Outcome, Sink};
use crate::val::Val;
use rand::rngs::StdRng;
use rand::{Rng, SeedableRng};

pub struct Ctx {
    pub sink: Sink,
    pub rng: StdRng,
    pub thorough: bool,
    pub seed: u64,
}

pub const ARGN: [&str; 4] = ["a", "b", "c", "e"];

impl Ctx {
    pub fn new(dir: &str, profile: &str, seed: u64, thorough: bool, cap: usize) -> Ctx {
        Ctx { sink: Sink::new(dir, cap, profile), rng: StdRng::seed_from_u64(seed), thorough, seed }
    }
    /// scale a count by tier
    pub fn q(&self, quick: usize, thorough: usize) -> usize {
        if self.thorough {
            thorough
        } else {
            quick
        }
    }

    /// one call on a fixed type with immediate operands
    pub fn call(&mut self, ty: &Ty, op: &'static str, sp: &'static str, x: &[u64]) -> Option<Vec<Val>> {
        self.call_x(ty, op, sp, x, &[])
    }
    pub fn call_x(
        &mut self,
        ty: &Ty,
        op: &'static str,
        sp: &'static str,
        x: &[u64],
        extra: &[(&str, String)],
    ) -> Option<Vec<Val>> {
        set_current(op, ty.name, sp, ty.n, x);
        let out = guarded(|| (ty.exec)(op, sp, x));
        let out = match out {
            Some(o) => o,
            None => panic!("harness: no such op {op}/{sp} for {}", ty.name),
        };
        let args: Vec<(&str, Val)> = x.iter().enumerate().map(|(i, v)| (ARGN[i], Val::U(*v))).collect();
        let line = event(op, ty.name, sp, extra, &args, &out);
        self.sink.line(&line);
        *self.sink.per_op.entry(format!("{}.{}", ty.name, op)).or_insert(0) += 1;
        self.note(ty, op, x);
        match out {
            Outcome::Ok(v) => Some(v),
            Outcome::Panic { .. } => {
                self.sink.panics += 1;
                None
            }
        }
    }
    /// distinct non-trivial accounting: (type, op, operands) where no operand is zero or NaR
    fn note(&mut self, ty: &Ty, op: &str, x: &[u64]) {
        let nar = gen::nar(ty.n);
        let posit_args = !op.starts_with("from_");
        if posit_args && x.iter().any(|&v| v == 0 || v == nar) {
            return;
        }
        use std::hash::{Hash, Hasher};
        let mut h = std::collections::hash_map::DefaultHasher::new();
        ty.name.hash(&mut h);
        op.hash(&mut h);
        x.hash(&mut h);
        self.sink.nontrivial.insert(h.finish());
    }
}

/// A small register machine over one fixed type: results feed later operations, which
/// reaches saturation, long regimes and deep cancellation quickly.
pub fn dataflow(ctx: &mut Ctx, ty: &Ty, ops: &[(&'static str, &'static str, usize)], programs: usize, len: usize, lat: &[u64]) {
    const NR: usize = 8;
    for _ in 0..programs {
        ctx.sink.boundary();
        ctx.sink.free = false;
        let mut regs = [0u64; NR];
        for (i, r) in regs.iter_mut().enumerate() {
            let v = if ctx.rng.gen_range(0..4) == 0 { gen::random_pattern(ty.n, &mut ctx.rng) } else { lat[ctx.rng.gen_range(0..lat.len())] };
            *r = v;
            let js = {
                let mut s = String::new();
                Val::U(v).json(&mut s);
                s
            };
            let line = format!("{{\"op\":\"load\",\"t\":\"{}\",\"sp\":\"m\",\"d\":{},\"a\":{},\"o\":\"ok\",\"r\":{}}}", ty.name, i, js, js);
            ctx.sink.line(&line);
        }
        for _ in 0..len {
            let (op, sp, ar) = ops[ctx.rng.gen_range(0..ops.len())];
            let idx: Vec<usize> = (0..ar).map(|_| ctx.rng.gen_range(0..NR)).collect();
            let d = ctx.rng.gen_range(0..NR);
            let x: Vec<u64> = idx.iter().map(|&i| regs[i]).collect();
            let mut extra: Vec<(&str, String)> = vec![("d", d.to_string())];
            const RN: [&str; 3] = ["ra", "rb", "rc"];
            for (j, i) in idx.iter().enumerate() {
                extra.push((RN[j], i.to_string()));
            }
            match ctx.call_x(ty, op, sp, &x, &extra) {
                Some(v) => regs[d] = v[0].u(),
                None => {
                    // panic: the register keeps its value (the machine has no transition)
                }
            }
        }
    }
    ctx.sink.free = true;
    ctx.sink.boundary();
}

fn lat_for(ctx: &mut Ctx, ty: &Ty) -> Vec<u64> {
    let nrand = if ctx.thorough { 6 } else { 2 };
    gen::lattice(ty.n, ty.es, &mut ctx.rng, nrand)
}

const BIN: [&str; 4] = ["add", "sub", "mul", "div"];

pub fn suite_c01(ctx: &mut Ctx) {
    // P8E0: every operand pair, every operator, const-method spelling; operator spellings on the lattice
    for a in 0..256u64 {
        for b in 0..256u64 {
            for op in BIN {
                ctx.call(&P8T, op, "m", &[a, b]);
            }
        }
    }
    for ty in FIXED {
        let lat = lat_for(ctx, ty);
        let sp = gen::specials(ty.n);
        // specials x lattice (both orders): NaR / zero / saturation rules
        for &a in &sp {
            for &b in lat.iter().step_by(if ty.n == 8 { 1 } else { 7 }) {
                for op in BIN {
                    ctx.call(ty, op, "o", &[a, b]);
                    ctx.call(ty, op, "o", &[b, a]);
                }
            }
        }
        if ty.n == 8 {
            continue;
        }
        // lattice pairs with directed partners
        let npairs = ctx.q(40_000, 600_000);
        for i in 0..npairs {
            let a = lat[ctx.rng.gen_range(0..lat.len())];
            let b = gen::partner(ty.n, ty.es, a, &lat, &mut ctx.rng);
            let sp = ["m", "o", "a"][i % 3];
            for op in BIN {
                ctx.call(ty, op, sp, &[a, b]);
            }
        }
        // uniform random
        for _ in 0..ctx.q(5_000, 100_000) {
            let a = gen::random_pattern(ty.n, &mut ctx.rng);
            let b = gen::random_pattern(ty.n, &mut ctx.rng);
            for op in BIN {
                ctx.call(ty, op, "m", &[a, b]);
            }
        }
        // dataflow programs
        let ops: Vec<(&'static str, &'static str, usize)> =
            vec![("add", "o", 2), ("sub", "o", 2), ("mul", "o", 2), ("div", "o", 2), ("add", "a", 2), ("mul", "a", 2), ("sub", "m", 2), ("div", "m", 2)];
        let (pr, ln) = (ctx.q(300, 5000), 40);
        dataflow(ctx, ty, &ops, pr, ln, &lat);
    }
}

/// selftest trace: dataflow programs over operations that are exercised by every check
pub fn suite_self(ctx: &mut Ctx) {
    for ty in FIXED {
        let lat = lat_for(ctx, ty);
        let ops: Vec<(&'static str, &'static str, usize)> = vec![
            ("add", "o", 2), ("sub", "o", 2), ("mul", "o", 2), ("div", "o", 2), ("mul_add", "m", 3),
            ("neg", "o", 1), ("abs", "m", 1), ("min", "m", 2), ("max", "m", 2), ("round", "m", 1),
        ];
        dataflow(ctx, ty, &ops, 12, 30, &lat);
    }
}
