//! The driver: seeded suites of calls against the real library, one ndjson event per call.
use crate::fixed::{Ty, FIXED, P16T, P32T, P8T};
use crate::gen;
use crate::guard::{guarded, set_current};
use crate::sink::{event, Outcome, Sink};
use crate::val::Val;
use rand::rngs::StdRng;
use rand::{Rng, SeedableRng};

pub struct Ctx {
    pub sink: Sink,
    pub rng: StdRng,
    pub thorough: bool,
    pub seed: u64,
}

pub const ARGN: [&str; 4] = ["a", "b", "c", "e"];

impl Ctx {
    pub fn new(dir: &str, profile: &str, seed: u64, thorough: bool, cap: usize) -> Ctx {
        Ctx { sink: Sink::new(dir, cap, profile), rng: StdRng::seed_from_u64(seed), thorough, seed }
    }
    /// scale a count by tier
    pub fn q(&self, quick: usize, thorough: usize) -> usize {
        if self.thorough {
            thorough
        } else {
            quick
        }
    }

    /// one call on a fixed type with immediate operands
    pub fn call(&mut self, ty: &Ty, op: &'static str, sp: &'static str, x: &[u64]) -> Option<Vec<Val>> {
        self.call_x(ty, op, sp, x, &[])
    }
    pub fn call_x(
        &mut self,
        ty: &Ty,
        op: &'static str,
        sp: &'static str,
        x: &[u64],
        extra: &[(&str, String)],
    ) -> Option<Vec<Val>> {
        set_current(op, ty.name, sp, ty.n, x);
        let out = guarded(|| (ty.exec)(op, sp, x));
        let out = match out {
            Some(o) => o,
            None => panic!("harness: no such op {op}/{sp} for {}", ty.name),
        };
        let args: Vec<(&str, Val)> = x.iter().enumerate().map(|(i, v)| (ARGN[i], Val::U(*v))).collect();
        let line = event(op, ty.name, sp, extra, &args, &out);
        self.sink.line(&line);
        *self.sink.per_op.entry(format!("{}.{}", ty.name, op)).or_insert(0) += 1;
        self.note(ty, op, x);
        match out {
            Outcome::Ok(v) => Some(v),
            Outcome::Panic { .. } => {
                self.sink.panics += 1;
                None
            }
        }
    }
    /// distinct non-trivial accounting: (type, op, operands) where no operand is zero or NaR
    fn note(&mut self, ty: &Ty, op: &str, x: &[u64]) {
        let nar = gen::nar(ty.n);
        let posit_args = !op.starts_with("from_");
        if posit_args && x.iter().any(|&v| v == 0 || v == nar) {
            return;
        }
        use std::hash::{Hash, Hasher};
        let mut h = std::collections::hash_map::DefaultHasher::new();
        ty.name.hash(&mut h);
        op.hash(&mut h);
        x.hash(&mut h);
        self.sink.nontrivial.insert(h.finish());
    }
}

/// A small register machine over one fixed type: results feed later operations, which
/// reaches saturation, long regimes and deep cancellation quickly.
pub fn dataflow(ctx: &mut Ctx, ty: &Ty, ops: &[(&'static str, &'static str, usize)], programs: usize, len: usize, lat: &[u64]) {
    const NR: usize = 8;
    for _ in 0..programs {
        ctx.sink.boundary();
        ctx.sink.free = false;
        let mut regs = [0u64; NR];
        for (i, r) in regs.iter_mut().enumerate() {
            let v = if ctx.rng.gen_range(0..4) == 0 { gen::random_pattern(ty.n, &mut ctx.rng) } else { lat[ctx.rng.gen_range(0..lat.len())] };
            *r = v;
            let js = {
                let mut s = String::new();
                Val::U(v).json(&mut s);
                s
            };
            let line = format!("{{\"op\":\"load\",\"t\":\"{}\",\"sp\":\"m\",\"d\":{},\"a\":{},\"o\":\"ok\",\"r\":{}}}", ty.name, i, js, js);
            ctx.sink.line(&line);
        }
        for _ in 0..len {
            let (op, sp, ar) = ops[ctx.rng.gen_range(0..ops.len())];
            let idx: Vec<usize> = (0..ar).map(|_| ctx.rng.gen_range(0..NR)).collect();
            let d = ctx.rng.gen_range(0..NR);
            let x: Vec<u64> = idx.iter().map(|&i| regs[i]).collect();
            let mut extra: Vec<(&str, String)> = vec![("d", d.to_string())];
            const RN: [&str; 3] = ["ra", "rb", "rc"];
            for (j, i) in idx.iter().enumerate() {
                extra.push((RN[j], i.to_string()));
            }
            match ctx.call_x(ty, op, sp, &x, &extra) {
                Some(v) => regs[d] = v[0].u(),
                None => {
                    // panic: the register keeps its value (the machine has no transition)
                }
            }
        }
    }
    ctx.sink.free = true;
    ctx.sink.boundary();
}

fn lat_for(ctx: &mut Ctx, ty: &Ty) -> Vec<u64> {
    let nrand = if ctx.thorough { 6 } else { 2 };
    gen::lattice(ty.n, ty.es, &mut ctx.rng, nrand)
}

/// run an operation only to *choose* further inputs (never judged, never logged)
pub fn peek(ty: &Ty, op: &str, x: &[u64]) -> Option<u64> {
    match guarded(|| (ty.exec)(op, "m", x)) {
        Some(Outcome::Ok(v)) => v.first().map(|r| r.u()),
        _ => None,
    }
}

const BIN: [&str; 4] = ["add", "sub", "mul", "div"];

pub fn suite_c01(ctx: &mut Ctx) {
    // P8E0: every operand pair, every operator, const-method spelling; operator spellings on the lattice
    for a in 0..256u64 {
        for b in 0..256u64 {
            for op in BIN {
                ctx.call(&P8T, op, "m", &[a, b]);
            }
        }
    }
    for ty in FIXED {
        let lat = lat_for(ctx, ty);
        let sp = gen::specials(ty.n);
        // specials x lattice (both orders): NaR / zero / saturation rules
        for &a in &sp {
            for &b in lat.iter().step_by(if ty.n == 8 { 1 } else { 7 }) {
                for op in BIN {
                    ctx.call(ty, op, "o", &[a, b]);
                    ctx.call(ty, op, "o", &[b, a]);
                }
            }
        }
        if ty.n == 8 {
            continue;
        }
        // lattice pairs with directed partners
        let npairs = ctx.q(40_000, 600_000);
        for i in 0..npairs {
            let a = lat[ctx.rng.gen_range(0..lat.len())];
            let b = gen::partner(ty.n, ty.es, a, &lat, &mut ctx.rng);
            let sp = ["m", "o", "a"][i % 3];
            for op in BIN {
                ctx.call(ty, op, sp, &[a, b]);
            }
        }
        // lone-low-bit products: a single sticky bit decides the rounding of the product
        let nl = ctx.q(1500, 30_000);
        let (lp, _) = lone_bit_cases(ctx, ty.n, ty.es, nl);
        for (i, &(a, b)) in lp.iter().enumerate() {
            let (a, b) = if i % 2 == 0 { (a, b) } else { (gen::neg(ty.n, a), b) };
            ctx.call(ty, "mul", ["m", "o", "a"][i % 3], &[a, b]);
        }
        // exact scalings into a shorter-fraction regime (ties, 1/4 and 3/4 remainders) by mul and by div
        let k = ctx.q(3000, 60_000);
        for (i, &(a, bm, bd, _)) in pow2_shift_cases(ctx, ty.n, ty.es, k).iter().enumerate() {
            let sp = ["m", "o", "a"][i % 3];
            ctx.call(ty, "mul", sp, &[a, bm]);
            ctx.call(ty, "div", sp, &[a, bd]);
            if i % 4 == 0 {
                ctx.call(ty, "mul", sp, &[bm, a]);
            }
        }
        // uniform random
        for _ in 0..ctx.q(5_000, 100_000) {
            let a = gen::random_pattern(ty.n, &mut ctx.rng);
            let b = gen::random_pattern(ty.n, &mut ctx.rng);
            for op in BIN {
                ctx.call(ty, op, "m", &[a, b]);
            }
        }
        // dataflow programs
        let ops: Vec<(&'static str, &'static str, usize)> =
            vec![("add", "o", 2), ("sub", "o", 2), ("mul", "o", 2), ("div", "o", 2), ("add", "a", 2), ("mul", "a", 2), ("sub", "m", 2), ("div", "m", 2)];
        let (pr, ln) = (ctx.q(300, 5000), 40);
        dataflow(ctx, ty, &ops, pr, ln, &lat);
    }
    // differential screening (selection only; see screen.rs)
    for ty in [&P16T, &P32T] {
        let k = ctx.q(1 << 26, 1 << 30);
        crate::screen::screen_fixed(ctx, ty, &crate::screen::ARITH, k);
    }
    // P16E1: a coset of all 2^32 operand pairs (thorough: every pair) against the f64 route
    let l2 = ctx.q(28, 32) as u32;
    crate::screen::screen_p16_pairs(ctx, &P16T, l2);
}

/// Scaling by a power of two into a regime with FEWER fraction bits: a * 2^sb (or a / 2^-sb) is exact in the reals and
/// its rounding discards exactly d = 1..3 low bits of a's fraction, which are set to each pattern (1, 11, 01, 10, 111,
/// ...): exact ties with even / odd kept bit, 3/4-ulp and 1/4-ulp remainders whose only information is the bit just
/// below the rounding bit.  For the fused family a dust addend c of either sign is supplied at every distance below
/// the product (just below the last kept bit ... hundreds of binades), which must break an exact tie.
/// Returns (a, b_mul, b_div, c).
pub fn pow2_shift_cases(ctx: &mut Ctx, n: u32, es: u32, count: usize) -> Vec<(u64, u64, u64, u64)> {
    let maxs = ((n - 2) << es) as i32;
    let mut out = Vec::new();
    let mut tries = 0;
    while out.len() < count && tries < count * 200 {
        tries += 1;
        let sa = ctx.rng.gen_range(-maxs..=maxs);
        let nfa = gen::frac_bits(n, es, sa.div_euclid(1 << es)) as i32;
        if nfa < 2 {
            continue;
        }
        let d = ctx.rng.gen_range(1..=3.min(nfa));
        // target scale with nfa - d fraction bits
        let st = ctx.rng.gen_range(-maxs..=maxs);
        let nft = gen::frac_bits(n, es, st.div_euclid(1 << es)) as i32;
        if nft != nfa - d || nft < 1 {
            continue;
        }
        let sb = st - sa;
        if sb.abs() > maxs {
            continue;
        }
        // a's fraction: random high part, chosen low d bits (non-zero), occasionally a long run of ones above them
        let low = ctx.rng.gen_range(1..(1u64 << d));
        let mut f = (ctx.rng.gen::<u64>() >> (64 - nfa)) & !gen::mask(d as u32) | low;
        if ctx.rng.gen_range(0..4) == 0 {
            f |= gen::mask(nfa as u32) & !gen::mask(d as u32); // kept part all ones: the round-up carries into the exponent
        }
        let a = gen::from_scale(n, es, sa, f << (64 - nfa));
        let b_mul = gen::from_scale(n, es, sb, 0);
        let b_div = gen::from_scale(n, es, -sb, 0);
        // dust: below the last discarded bit of the product (weight 2^(st - nfa))
        let below = match ctx.rng.gen_range(0..4) {
            0 => ctx.rng.gen_range(1..4),
            1 => ctx.rng.gen_range(4..40),
            2 => ctx.rng.gen_range(28..70),
            _ => ctx.rng.gen_range(60..2 * maxs.max(61)),
        };
        let sc = (st - nfa - below).max(-maxs);
        let c = gen::from_scale(n, es, sc, if ctx.rng.gen::<bool>() { 0 } else { ctx.rng.gen::<u64>() });
        let c = if ctx.rng.gen::<bool>() { gen::neg(n, c) } else { c };
        let a = if ctx.rng.gen_range(0..3) == 0 { gen::neg(n, a) } else { a };
        out.push((a, b_mul, b_div, c));
    }
    out
}

/// selftest trace: dataflow programs over operations that are exercised by every check
pub fn suite_self(ctx: &mut Ctx) {
    for ty in FIXED {
        let lat = lat_for(ctx, ty);
        let ops: Vec<(&'static str, &'static str, usize)> = vec![
            ("add", "o", 2), ("sub", "o", 2), ("mul", "o", 2), ("div", "o", 2), ("mul_add", "m", 3),
            ("neg", "o", 1), ("abs", "m", 1), ("min", "m", 2), ("max", "m", 2), ("round", "m", 1),
        ];
        dataflow(ctx, ty, &ops, 12, 30, &lat);
        for i in 0..150 {
            let a = lat[ctx.rng.gen_range(0..lat.len())];
            let b = gen::partner(ty.n, ty.es, a, &lat, &mut ctx.rng);
            ctx.call(ty, ["add", "mul", "sub", "div"][i % 4], "m", &[a, b]);
        }
    }
}

// ------------------------------------------------------------------------------------------
fn all_or_lattice(ctx: &mut Ctx, ty: &Ty, nrandom: usize) -> Vec<u64> {
    if ty.n <= 16 {
        (0..(1u64 << ty.n)).collect()
    } else {
        let mut v = lat_for(ctx, ty);
        for _ in 0..nrandom {
            v.push(gen::random_pattern(ty.n, &mut ctx.rng));
        }
        v
    }
}

pub fn suite_c05(ctx: &mut Ctx) {
    const OPS: [(&str, &str); 4] = [("mul_add", "m"), ("mul_sub", "m"), ("sub_product", "m"), ("mul_add", "nt")];
    // thorough: P8E0 exhaustively -- every one of the 2^24 operand triples through all three operations
    // (quick: a seeded coset of 1/64 of them)
    {
        let stride = ctx.q(64, 1) as u64;
        let off = ctx.seed % stride;
        let mut w = off;
        while w < (1u64 << 24) {
            let (a, b, c) = (w >> 16, (w >> 8) & 0xff, w & 0xff);
            ctx.call(&P8T, "mul_add", "m", &[a, b, c]);
            ctx.call(&P8T, "mul_sub", "m", &[a, b, c]);
            ctx.call(&P8T, "sub_product", "m", &[a, b, c]);
            w += stride;
        }
    }
    for ty in FIXED {
        let lat = lat_for(ctx, ty);
        let ntr = if ty.n == 8 { ctx.q(60_000, 1_500_000) } else { ctx.q(40_000, 600_000) };
        for i in 0..ntr {
            let pick = |ctx: &mut Ctx| if ty.n == 8 { ctx.rng.gen_range(0..256u64) } else { lat[ctx.rng.gen_range(0..lat.len())] };
            let a = pick(ctx);
            let b = if ctx.rng.gen_range(0..4) == 0 { gen::partner(ty.n, ty.es, a, &lat, &mut ctx.rng) } else { pick(ctx) };
            // the rounded product, to aim the addend at cancellation / ties (input choice only)
            let prod = peek(ty, "mul", &[a, b]).unwrap_or(0);
            let mode = ctx.rng.gen_range(0..10);
            let c = if mode < 4 {
                let j = ctx.rng.gen_range(-4i64..=4);
                let near = ((prod as i64 + j) as u64) & gen::mask(ty.n);
                if ctx.rng.gen::<bool>() { gen::neg(ty.n, near) } else { near }
            } else if mode < 7 {
                gen::partner(ty.n, ty.es, prod, &lat, &mut ctx.rng)
            } else {
                pick(ctx)
            };
            let (op, sp) = OPS[i % 4];
            // sub_product(c; a, b) = c - a*b : receiver is the addend
            if op == "sub_product" {
                ctx.call(ty, op, sp, &[c, a, b]);
            } else {
                ctx.call(ty, op, sp, &[a, b, c]);
            }
        }
        // lone-low-bit products + an addend that puts the rounding tie on them: the product's last bit
        // is the only thing that tells the sum from an exact tie
        let nl = ctx.q(3000, 60_000);
        let (_, lt) = lone_bit_cases(ctx, ty.n, ty.es, nl);
        for (i, &(a, b, c)) in lt.iter().enumerate() {
            let (a, c) = if i % 2 == 0 { (a, c) } else { (gen::neg(ty.n, a), gen::neg(ty.n, c)) };
            match i % 3 {
                0 => { ctx.call(ty, "mul_add", "m", &[a, b, c]); }
                1 => { ctx.call(ty, "mul_sub", "m", &[a, b, gen::neg(ty.n, c)]); }
                _ => { ctx.call(ty, "sub_product", "m", &[c, gen::neg(ty.n, a), b]); }
            }
        }
        // a product that is exactly a tie (or 1/4, 3/4 of an ulp) plus a dust addend of either sign at every distance below
        if ty.n > 8 {
            let k = ctx.q(3000, 60_000);
            for (i, &(a, b, _, c)) in pow2_shift_cases(ctx, ty.n, ty.es, k).iter().enumerate() {
                match i % 3 {
                    0 => { ctx.call(ty, "mul_add", "m", &[a, b, c]); }
                    1 => { ctx.call(ty, "mul_sub", "m", &[a, b, c]); }
                    _ => { ctx.call(ty, "sub_product", "m", &[c, a, b]); }
                }
            }
        }
        // specials
        let sp = gen::specials(ty.n);
        for &a in &sp {
            for &b in &sp {
                for &c in sp.iter().step_by(3) {
                    ctx.call(ty, "mul_add", "m", &[a, b, c]);
                    ctx.call(ty, "mul_sub", "m", &[a, b, c]);
                    ctx.call(ty, "sub_product", "m", &[a, b, c]);
                }
            }
        }
        let ops: Vec<(&'static str, &'static str, usize)> = vec![("mul_add", "m", 3), ("mul_sub", "m", 3), ("sub_product", "m", 3), ("mul", "o", 2), ("neg", "o", 1)];
        let pr = ctx.q(200, 4000);
        dataflow(ctx, ty, &ops, pr, 30, &lat);
    }
    // differential screening (selection only; see screen.rs)
    for ty in [&P16T, &P32T] {
        let k = ctx.q(1 << 26, 1 << 30);
        crate::screen::screen_fixed(ctx, ty, &crate::screen::FUSED, k);
    }
}

pub fn suite_c06(ctx: &mut Ctx) {
    for ty in FIXED {
        let n = ctx.q(150_000, 2_000_000);
        let xs = all_or_lattice(ctx, ty, n);
        for &a in &xs {
            ctx.call(ty, "sqrt", "m", &[a]);
        }
        if ty.n == 32 {
            // perfect squares and their neighbours: exact roots, and roots just off a boundary
            let lat = lat_for(ctx, ty);
            for &y in &lat {
                if let Some(s) = peek(ty, "mul", &[y, y]) {
                    for d in [-1i64, 0, 1] {
                        ctx.call(ty, "sqrt", "m", &[((s as i64 + d) as u64) & gen::mask(32)]);
                    }
                }
            }
        }
        if ty.n == 32 {
            // hard cases (table-maker's dilemma): inputs whose exact root lies extremely close to a rounding
            // midpoint.  For every odd 29-bit m (a midpoint of 28-bit root significands) m^2 is compared with
            // the nearest representable input significand; the closest ones are kept.  (Input selection only.)
            // |distance| < 2^-10 of an input ulp: about 2^18 candidates per parity; the very closest (2^-16) are all
            // kept, the others are sub-sampled (seeded) to a few ten thousand
            let keep_bits = 10;
            let keep_all_bits = if ctx.thorough { 13 } else { 16 };
            let sample_mask: u64 = if ctx.thorough { 0 } else { 3 }; // keep all resp. 1/4 of the rest
            let mut hard: Vec<u64> = Vec::new();
            let mut m: u64 = (1 << 28) + 1;
            while m < (1 << 29) {
                let t = m * m; // in [2^56, 2^58)
                let (sh, exp_bit) = if t < (1u64 << 57) { (29u32, 0u64) } else { (30u32, 1u64) };
                let low = t & ((1u64 << sh) - 1);
                let dist = low.min((1u64 << sh) - low);
                if dist < (1u64 << (sh - keep_bits))
                    && (dist < (1u64 << (sh - keep_all_bits)) || (m.wrapping_mul(0x9E37_79B9_7F4A_7C15).wrapping_add(ctx.seed) >> 40) & sample_mask == 0)
                {
                    let mant = (t + (1u64 << (sh - 1))) >> sh; // nearest 28-bit input significand (hidden bit included)
                    if mant >= (1 << 27) && mant < (1 << 28) {
                        let frac = mant & ((1 << 27) - 1);
                        // P32E2 pattern at scale exp_bit + 4k' : use scales -4..=3 (two-bit regimes keep 27 fraction bits)
                        let k = if (m >> 1) & 1 == 0 { -1i32 } else { 0 };
                        let e = exp_bit + if (m >> 2) & 1 == 0 { 0 } else { 2 }; // same parity as exp_bit
                        hard.push(gen::compose(32, 2, k, e as u32, frac));
                    }
                }
                m += 2;
            }
            for &a in &hard {
                ctx.call(ty, "sqrt", "m", &[a]);
            }
        }
        for &a in gen::specials(ty.n).iter() {
            ctx.call(ty, "sqrt", "nt", &[a]);
        }
    }
    // differential screening (selection only; see screen.rs)
    for ty in [&P16T, &P32T] {
        let k = ctx.q(1 << 24, 1 << 28);
        crate::screen::screen_fixed(ctx, ty, &["sqrt"], k);
    }
    let l2 = ctx.q(28, 32) as u32;
    crate::screen::screen_unary32(ctx, &P32T, &["sqrt"], l2);
}

pub fn suite_c09(ctx: &mut Ctx) {
    const OPS: [&str; 5] = ["round", "floor", "ceil", "trunc", "fract"];
    for ty in FIXED {
        let n = ctx.q(40_000, 600_000);
        let mut xs = all_or_lattice(ctx, ty, n);
        if ty.n == 32 {
            // around the binary point at every scale: x.0, x.5, x.5 +- ulp, x.0 +- ulp, small integers
            for scale in -3i32..=31 {
                for fl in [0u64, 1 << 63, 1 << 62, 3 << 62, u64::MAX, 1, (1 << 63) | 1, (1 << 63) - 1] {
                    let base = gen::from_scale(32, 2, scale, fl);
                    // align the fraction so that the binary point falls at specific bits
                    for half in 0..=(scale.max(0) as u32 + 1).min(27) {
                        let nf = gen::frac_bits(32, 2, scale.div_euclid(4));
                        if half < nf {
                            let bit = 1u64 << (nf - 1 - half);
                            for v in [base | bit, (base | bit) + 1, (base | bit).wrapping_sub(1), base & !(bit - 1) & !bit | bit] {
                                xs.push(v & gen::mask(32));
                                xs.push(gen::neg(32, v & gen::mask(32)));
                            }
                        }
                    }
                    xs.push(base);
                    xs.push(gen::neg(32, base));
                }
            }
            xs.sort();
            xs.dedup();
        }
        for &a in &xs {
            for op in OPS {
                ctx.call(ty, op, "m", &[a]);
            }
        }
        for &a in gen::specials(ty.n).iter() {
            for op in OPS {
                ctx.call(ty, op, "nt", &[a]);
            }
        }
    }
    // screening sweep over a seeded coset of all P32E2 patterns (selection only; see screen.rs)
    let l2 = ctx.q(28, 32) as u32;
    crate::screen::screen_unary32(ctx, &P32T, &["round", "floor", "ceil", "trunc", "fract"], l2);
}

pub fn suite_c10(ctx: &mut Ctx) {
    const CMP: [(&str, &str); 15] = [("eq", "m"), ("eq", "o"), ("ne", "o"), ("lt", "m"), ("le", "m"), ("gt", "m"), ("ge", "m"),
        ("lt", "o"), ("le", "o"), ("gt", "o"), ("ge", "o"), ("cmp", "m"), ("cmp", "o"), ("partial_cmp", "o"), ("copysign", "m")];
    const SEL: [(&str, &str); 6] = [("min", "m"), ("max", "m"), ("min", "o"), ("max", "o"), ("min", "nt"), ("max", "nt")];
    const UN: [(&str, &str); 16] = [("neg", "m"), ("neg", "o"), ("abs", "m"), ("signum", "m"), ("is_sign_positive", "m"), ("is_sign_negative", "m"),
        ("is_zero", "m"), ("is_nar", "m"), ("is_nan", "m"), ("is_finite", "m"), ("is_infinite", "m"), ("is_normal", "m"), ("classify", "m"),
        ("abs", "nt"), ("signum", "nt"), ("classify", "nt")];
    for ty in FIXED {
        let lat = lat_for(ctx, ty);
        // unary: every pattern (P8, P16) / lattice + random (P32)
        let xs = all_or_lattice(ctx, ty, 20_000);
        for &a in &xs {
            for (op, sp) in UN {
                ctx.call(ty, op, sp, &[a]);
            }
            // neg is an involution: feed the result back
            if let Some(v) = ctx.call(ty, "neg", "m", &[a]) {
                ctx.call(ty, "neg", "m", &[v[0].u()]);
            }
        }
        // pairs
        let mut pairs: Vec<(u64, u64)> = Vec::new();
        if ty.n == 8 {
            for a in 0..256u64 {
                for b in 0..256u64 {
                    pairs.push((a, b));
                }
            }
        } else {
            let np = ctx.q(25_000, 400_000);
            for _ in 0..np {
                let a = lat[ctx.rng.gen_range(0..lat.len())];
                let b = match ctx.rng.gen_range(0..4) {
                    0 => lat[ctx.rng.gen_range(0..lat.len())],
                    1 => ((a as i64 + ctx.rng.gen_range(-2i64..=2)) as u64) & gen::mask(ty.n),
                    2 => gen::neg(ty.n, a),
                    _ => gen::random_pattern(ty.n, &mut ctx.rng),
                };
                pairs.push((a, b));
            }
            for &a in gen::specials(ty.n).iter() {
                for &b in gen::specials(ty.n).iter() {
                    pairs.push((a, b));
                }
            }
        }
        for (i, &(a, b)) in pairs.iter().enumerate() {
            if ty.n == 8 {
                for (op, sp) in CMP {
                    ctx.call(ty, op, sp, &[a, b]);
                }
                for (op, sp) in SEL {
                    ctx.call(ty, op, sp, &[a, b]);
                }
            } else {
                // rotate through the spellings, 5 per pair
                for j in 0..5 {
                    let (op, sp) = CMP[(i * 5 + j) % CMP.len()];
                    ctx.call(ty, op, sp, &[a, b]);
                }
                let (op, sp) = SEL[i % SEL.len()];
                ctx.call(ty, op, sp, &[a, b]);
            }
        }
        // clamp triples (precondition lo <= hi is part of the contract: generate both, the spec skips lo > hi)
        let nt = ctx.q(30_000, 400_000);
        for i in 0..nt {
            let pick = |ctx: &mut Ctx| if ty.n == 8 { ctx.rng.gen_range(0..256u64) } else { lat[ctx.rng.gen_range(0..lat.len())] };
            let (a, mut lo, mut hi) = (pick(ctx), pick(ctx), pick(ctx));
            // order lo/hi by the signed pattern so that most triples satisfy the precondition
            let sx = |p: u64| ((p << (64 - ty.n)) as i64) >> (64 - ty.n);
            if sx(lo) > sx(hi) {
                std::mem::swap(&mut lo, &mut hi);
            }
            ctx.call(ty, "clamp", if i % 2 == 0 { "m" } else { "o" }, &[a, lo, hi]);
        }
    }
}

// ------------------------------------------------------------------------------------------
fn f32_neighbours(v: f64, out: &mut Vec<u64>) {
    let f = v as f32;
    let b = f.to_bits();
    for d in [-2i64, -1, 0, 1, 2] {
        out.push(((b as i64 + d) as u64) & 0xffff_ffff);
    }
}
fn f64_neighbours(v: f64, out: &mut Vec<u64>) {
    let b = v.to_bits();
    for d in [-2i64, -1, 0, 1, 2] {
        out.push((b as i64 + d) as u64);
    }
}

pub fn suite_c02(ctx: &mut Ctx) {
    // floats common to all targets
    let mut f32s: Vec<u64> = vec![0, 0x8000_0000, 0x7f80_0000, 0xff80_0000, 0x7fc0_0000, 0xffc0_0000, 0x7f80_0001, 0x7fff_ffff, 0xffff_ffff,
        0x7f7f_ffff, 0xff7f_ffff, 1, 2, 0x8000_0001, 0x007f_ffff, 0x0080_0000, 0x0080_0001, 0x3f80_0000, 0xbf80_0000];
    let mut f64s: Vec<u64> = vec![0, 1 << 63, 0x7ff0_0000_0000_0000, 0xfff0_0000_0000_0000, 0x7ff8_0000_0000_0000, 0xfff8_0000_0000_0000,
        0x7ff0_0000_0000_0001, 0x7fff_ffff_ffff_ffff, u64::MAX, 0x7fef_ffff_ffff_ffff, 0xffef_ffff_ffff_ffff, 1, 2, (1 << 63) | 1,
        0x000f_ffff_ffff_ffff, 0x0010_0000_0000_0000, 0x3ff0_0000_0000_0000, 0xbff0_0000_0000_0000];
    for e in 0..=255u64 {
        for m in [0u64, 1, 0x40_0000, 0x7f_ffff, 0x40_0001, 0x3f_ffff] {
            f32s.push((e << 23) | m);
            f32s.push(0x8000_0000 | (e << 23) | m);
        }
    }
    for k in 0..23 {
        f32s.push(1 << k); // every subnormal binade
        f32s.push((1 << k) | 1);
    }
    for e in (0..=2047u64).step_by(1) {
        if e > 1023 - 140 && e < 1023 + 140 || e < 3 || e > 2044 || e % 64 == 0 {
            for m in [0u64, 1, 1 << 51, (1 << 52) - 1, (1 << 51) | 1, (1 << 51) - 1, 1 << 24, (1 << 24) | 1, (1 << 24) - 1, 1 << 23] {
                f64s.push((e << 52) | m);
                f64s.push((1 << 63) | (e << 52) | m);
            }
        }
    }
    for k in 0..52 {
        f64s.push(1 << k);
    }
    for _ in 0..ctx.q(20_000, 400_000) {
        f32s.push(ctx.rng.gen::<u32>() as u64);
        f64s.push(ctx.rng.gen::<u64>());
        // exponent in the posit range, random significand with a sparse tail
        let e32 = ctx.rng.gen_range(127 - 126..127 + 127) as u64;
        f32s.push(((ctx.rng.gen::<u32>() as u64 & 1) << 31) | (e32 << 23) | (ctx.rng.gen::<u32>() as u64 & 0x7f_ffff));
        let e64 = ctx.rng.gen_range(1023 - 130..1023 + 130) as u64;
        let tail = match ctx.rng.gen_range(0..4) { 0 => 0, 1 => 1, 2 => ctx.rng.gen::<u64>() & 0xff, _ => ctx.rng.gen::<u64>() };
        let m = ((ctx.rng.gen::<u64>() << 24) ^ tail) & ((1 << 52) - 1);
        f64s.push(((ctx.rng.gen::<u64>() & 1) << 63) | (e64 << 52) | m);
    }
    for ty in FIXED {
        // every rounding boundary of the target: the (N+1)-bit posits between consecutive N-bit posits
        let mut b32: Vec<u64> = Vec::new();
        let mut b64: Vec<u64> = Vec::new();
        let n1 = ty.n + 1;
        let mids: Vec<u64> = if ty.n <= 16 {
            (0..(1u64 << (ty.n - 1))).map(|p| 2 * p + 1).collect()
        } else {
            let lat = lat_for(ctx, ty);
            let mut v: Vec<u64> = lat.iter().filter(|&&p| p < (1 << 31) && p != 0).flat_map(|&p| [2 * p + 1, 2 * p - 1]).collect();
            for _ in 0..ctx.q(30_000, 500_000) {
                v.push((ctx.rng.gen::<u64>() & gen::mask(32)) | 1);
            }
            v
        };
        for &m in &mids {
            if m == 0 || m >= (1 << ty.n) {
                continue;
            }
            let v = gen::to_f64_exact(n1, ty.es, m);
            f64_neighbours(v, &mut b64);
            f64_neighbours(-v, &mut b64);
            // the tie plus ONE mantissa bit anywhere below it (the only sticky information, at every distance)
            for _ in 0..(if ty.n <= 16 { 1 } else { 4 }) {
                let j = ctx.rng.gen_range(0..52);
                let s = (ctx.rng.gen::<u64>() & 1) << 63;
                b64.push((v.to_bits() | (1u64 << j)) ^ s);
                let f = v as f32;
                if f as f64 == v {
                    let j = ctx.rng.gen_range(0..23);
                    b32.push(((f.to_bits() | (1u32 << j)) as u64) ^ (s >> 32));
                }
            }
            if ty.n <= 16 || m % 5 == 0 {
                f32_neighbours(v, &mut b32);
                f32_neighbours(-v, &mut b32);
            }
        }
        // the N-bit posits themselves (exact inputs) and their float neighbours
        let reps: Vec<u64> = if ty.n <= 16 { (1..(1u64 << (ty.n - 1))).step_by(if ty.n == 16 { 3 } else { 1 }).collect() } else { lat_for(ctx, ty).into_iter().filter(|&p| p != 0 && p < (1 << 31)).collect() };
        for &p in &reps {
            let v = gen::to_f64_exact(ty.n, ty.es, p);
            f64_neighbours(v, &mut b64);
            f32_neighbours(v, &mut b32);
        }
        b32.extend_from_slice(&f32s);
        b64.extend_from_slice(&f64s);
        b32.sort();
        b32.dedup();
        b64.sort();
        b64.dedup();
        for (i, &x) in b32.iter().enumerate() {
            ctx.call(ty, "from_f32", ["m", "f", "i", "nt"][if i % 16 == 0 { (i / 16) % 4 } else { 0 }], &[x]);
            if i % 4 == 0 {
                // the same value through f64: from_f32(x) must equal from_f64(x as f64)
                ctx.call(ty, "from_f64", "m", &[(f32::from_bits(x as u32) as f64).to_bits()]);
            }
        }
        for (i, &x) in b64.iter().enumerate() {
            ctx.call(ty, "from_f64", ["m", "f", "i", "nt", "nc"][if i % 16 == 0 { (i / 16) % 5 } else { 0 }], &[x]);
        }
    }
    // screening sweep over a seeded coset of all f32 patterns (selection only; see screen.rs)
    let l2 = ctx.q(26, 32) as u32;
    crate::screen::screen_from32(ctx, &[&P8T, &P16T, &P32T], &["from_f32"], l2);
}

pub fn suite_c03(ctx: &mut Ctx) {
    for ty in FIXED {
        let n = ctx.q(100_000, 2_000_000);
        let xs = all_or_lattice(ctx, ty, n);
        for (i, &a) in xs.iter().enumerate() {
            ctx.call(ty, "to_f64", "m", &[a]);
            ctx.call(ty, "to_f32", "m", &[a]);
            if i % 8 == 0 {
                ctx.call(ty, "to_f64", "f", &[a]);
                ctx.call(ty, "to_f32", "f", &[a]);
                ctx.call(ty, "to_f64", "nt", &[a]);
            }
            ctx.call(ty, "f64_roundtrip", "m", &[a]);
            if ty.n <= 16 || i % 4 == 0 {
                ctx.call(ty, "str_roundtrip", "m", &[a]);
            }
        }
    }
    // screening sweep over a seeded coset of all P32E2 patterns (selection only; see screen.rs)
    let l2 = ctx.q(28, 32) as u32;
    crate::screen::screen_unary32(ctx, &P32T, &["to_f32", "to_f64", "f64_roundtrip"], l2);
    let l2 = ctx.q(24, 30) as u32;
    crate::screen::screen_unary32(ctx, &P32T, &["str_roundtrip"], l2);
}

pub fn suite_c07(ctx: &mut Ctx) {
    const FROM: [(&str, u32); 10] = [("from_i8", 8), ("from_u8", 8), ("from_i16", 16), ("from_u16", 16), ("from_i32", 32), ("from_u32", 32),
        ("from_i64", 64), ("from_u64", 64), ("from_isize", 64), ("from_usize", 64)];
    const TO: [&str; 4] = ["to_i32", "to_u32", "to_i64", "to_u64"];
    for ty in FIXED {
        for (op, w) in FROM {
            let xs: Vec<u64> = if w <= 16 { (0..(1u64 << w)).collect() } else { let k = ctx.q(3_000, 100_000); gen::ints(w, &mut ctx.rng, k) };
            for (i, &x) in xs.iter().enumerate() {
                ctx.call(ty, op, "m", &[x]);
                if i % 16 == 0 {
                    ctx.call(ty, op, "f", &[x]);
                }
            }
        }
        let n = ctx.q(40_000, 1_000_000);
        let mut xs = all_or_lattice(ctx, ty, n);
        if ty.n == 32 {
            // half-integers and the type bounds: around 2^31, 2^32, 2^63, 2^64, and x.5 at every scale
            for scale in -2i32..=66 {
                for fl in [0u64, 1 << 63, u64::MAX, 1, 3 << 62, (1 << 63) - 1, (1 << 63) | 1] {
                    let p = gen::from_scale(32, 2, scale, fl);
                    for d in -2i64..=2 {
                        let q = ((p as i64 + d) as u64) & gen::mask(32);
                        xs.push(q);
                        xs.push(gen::neg(32, q));
                    }
                    // put a single 1 at the half position
                    let nf = gen::frac_bits(32, 2, scale.div_euclid(4));
                    if scale >= 0 && (scale as u32) < nf {
                        let half = 1u64 << (nf - 1 - scale as u32);
                        for q in [p | half, (p | half) + 1, (p | half) - 1, (p & !(half - 1)) | half, ((p & !(half - 1)) | half) ^ (half << 1)] {
                            xs.push(q & gen::mask(32));
                            xs.push(gen::neg(32, q & gen::mask(32)));
                        }
                    }
                }
            }
            xs.sort();
            xs.dedup();
        }
        for (i, &a) in xs.iter().enumerate() {
            for op in TO {
                ctx.call(ty, op, "m", &[a]);
            }
            if i % 16 == 0 {
                for op in TO {
                    ctx.call(ty, op, "f", &[a]);
                }
            }
        }
    }
    // screening sweeps (selection only; see screen.rs)
    let l2 = ctx.q(28, 32) as u32;
    crate::screen::screen_unary32(ctx, &P32T, &["to_i32", "to_u32", "to_i64", "to_u64"], l2);
    let l2 = ctx.q(26, 32) as u32;
    crate::screen::screen_from32(ctx, &[&P8T, &P16T, &P32T], &["from_i32", "from_u32"], l2);
    let k = ctx.q(300_000, 20_000_000);
    crate::screen::screen_from64(ctx, &[&P8T, &P16T, &P32T], k);
}

pub fn suite_c08(ctx: &mut Ctx) {
    for ty in FIXED {
        let n = ctx.q(100_000, 2_000_000);
        let mut xs = all_or_lattice(ctx, ty, n);
        if ty.n == 32 {
            // boundaries of the narrower formats, expressed as P32 patterns, +- 2 ulp
            for (n2, es2) in [(8u32, 0u32), (16, 1)] {
                for m in 0..(1u64 << n2) {
                    let mid = 2 * m + 1; // (n2+1)-bit posit between m and m+1
                    if mid >= (1 << n2) {
                        continue;
                    }
                    let (_, scale, nf, f) = gen::decode(n2 + 1, es2, mid);
                    let fl = if nf == 0 { 0 } else { f << (64 - nf) };
                    let p = gen::from_scale(32, 2, scale, fl);
                    for d in -2i64..=2 {
                        let q = ((p as i64 + d) as u64) & gen::mask(32);
                        xs.push(q);
                        xs.push(gen::neg(32, q));
                    }
                }
            }
            xs.sort();
            xs.dedup();
        }
        if ty.n == 16 {
            // P16 -> P8 boundaries are all in the exhaustive set already
        }
        for (i, &a) in xs.iter().enumerate() {
            for op in ["to_p8", "to_p16", "to_p32"] {
                ctx.call(ty, op, if i % 8 == 0 { "i" } else { "f" }, &[a]);
            }
        }
    }
    // screening sweep over a seeded coset of all P32E2 patterns (selection only; see screen.rs)
    let l2 = ctx.q(28, 32) as u32;
    crate::screen::screen_unary32(ctx, &P32T, &["to_p16", "to_p8"], l2);
}

/// C17: every spelling of every forwarded operation, on lattice inputs
pub fn suite_c17(ctx: &mut Ctx) {
    const T: &[(&str, usize, &[&str])] = &[
        ("add", 2, &["m", "o", "a", "al"]), ("sub", 2, &["m", "o", "a"]), ("mul", 2, &["m", "o", "a", "al"]), ("div", 2, &["m", "o", "a"]),
        ("rem", 2, &["m", "o", "a"]), ("neg", 1, &["m", "o"]), ("recip", 1, &["m", "nt"]),
        ("mul_add", 3, &["m", "nt"]), ("sqrt", 1, &["m", "nt"]),
        ("round", 1, &["m", "nt"]), ("floor", 1, &["m", "nt"]), ("ceil", 1, &["m", "nt"]), ("trunc", 1, &["m", "nt"]), ("fract", 1, &["m", "nt"]),
        ("eq", 2, &["m", "o"]), ("lt", 2, &["m", "o"]), ("le", 2, &["m", "o"]), ("gt", 2, &["m", "o"]), ("ge", 2, &["m", "o"]),
        ("cmp", 2, &["m", "o"]), ("partial_cmp", 2, &["o"]), ("min", 2, &["m", "o", "nt"]), ("max", 2, &["m", "o", "nt"]),
        ("abs", 1, &["m", "nt", "sg"]), ("signum", 1, &["m", "nt", "sg"]), ("abs_sub", 2, &["sg"]),
        ("is_zero", 1, &["m", "nt"]), ("is_one", 1, &["nt"]), ("is_nan", 1, &["m", "nt"]), ("is_infinite", 1, &["m", "nt"]),
        ("is_finite", 1, &["m", "nt"]), ("is_normal", 1, &["m", "nt"]), ("is_sign_positive", 1, &["m", "nt"]),
        ("is_sign_negative", 1, &["m", "nt"]), ("is_positive", 1, &["sg"]), ("is_negative", 1, &["sg"]), ("classify", 1, &["m", "nt"]),
        ("to_f32", 1, &["m", "f"]), ("to_f64", 1, &["m", "f", "nt"]),
        ("to_i32", 1, &["m", "f"]), ("to_u32", 1, &["m", "f"]), ("to_i64", 1, &["m", "f", "nt"]), ("to_u64", 1, &["m", "f", "nt"]),
        ("to_i8", 1, &["m", "f"]), ("to_i16", 1, &["m", "f"]), ("to_u8", 1, &["m", "f"]), ("to_u16", 1, &["m", "f"]),
        ("to_isize", 1, &["m", "f"]), ("to_usize", 1, &["m", "f"]),
        ("to_p8", 1, &["f", "i", "m"]), ("to_p16", 1, &["f", "i", "m"]), ("to_p32", 1, &["f", "i", "m"]),
    ];
    const TI: &[(&str, u32, &[&str])] = &[
        ("from_i8", 8, &["m", "f", "nt"]), ("from_i16", 16, &["m", "f", "nt"]), ("from_i32", 32, &["m", "f", "nt"]), ("from_i64", 64, &["m", "f", "nt"]),
        ("from_isize", 64, &["m", "f"]), ("from_u8", 8, &["m", "f", "nt"]), ("from_u16", 16, &["m", "f", "nt"]), ("from_u32", 32, &["m", "f", "nt"]),
        ("from_u64", 64, &["m", "f", "nt"]), ("from_usize", 64, &["m", "f"]),
    ];
    const CONSTS: [&str; 21] = ["ZERO", "ONE", "NAR", "NAN", "INFINITY", "MAX", "MIN", "MIN_POSITIVE", "EPSILON", "nt_zero", "nt_one", "nt_nan",
        "nt_infinity", "nt_neg_infinity", "nt_neg_zero", "nt_min_value", "nt_max_value", "nt_min_positive_value", "b_min_value", "b_max_value", "default"];
    const MC: [&str; 16] = ["E", "FRAC_1_PI", "FRAC_1_SQRT_2", "FRAC_2_PI", "FRAC_2_SQRT_PI", "FRAC_PI_2", "FRAC_PI_3", "FRAC_PI_4", "FRAC_PI_6",
        "FRAC_PI_8", "LN_10", "LN_2", "LOG10_E", "LOG2_E", "PI", "SQRT_2"];
    for ty in FIXED {
        let lat = lat_for(ctx, ty);
        let reps = ctx.q(400, 6000);
        for (op, ar, sps) in T {
            for _ in 0..reps {
                let mut x: Vec<u64> = (0..*ar).map(|_| match ctx.rng.gen_range(0..5) { 0 => gen::random_pattern(ty.n, &mut ctx.rng), _ => lat[ctx.rng.gen_range(0..lat.len())] }).collect();
                if *ar >= 2 && ctx.rng.gen_range(0..4) == 0 {
                    x[1] = gen::partner(ty.n, ty.es, x[0], &lat, &mut ctx.rng);
                }
                for sp in sps.iter() {
                    ctx.call(ty, op, sp, &x);
                }
            }
        }
        // every pair of special values through every spelling of every binary operation (NaR op NaR, 0 op NaR, ...)
        let sp = gen::specials(ty.n);
        for (op, ar, sps) in T {
            if *ar == 2 {
                for &a in sp.iter().step_by(2) {
                    for &b in sp.iter().step_by(2) {
                        for s in sps.iter() {
                            ctx.call(ty, op, s, &[a, b]);
                        }
                    }
                }
                for s in sps.iter() {
                    ctx.call(ty, op, s, &[gen::nar(ty.n), gen::nar(ty.n)]);
                    ctx.call(ty, op, s, &[0, 0]);
                }
            }
        }
        // narrowing conversions at the target's rounding boundaries: every spelling on the source patterns nearest to
        // each P8E0 midpoint (and a sample of the P16E1 ones), +- 1, 2, 5 source ulps
        if ty.n > 8 {
            let mut srcs: Vec<u64> = Vec::new();
            for m in (1..256u64).step_by(2) {
                srcs.push(gen::to_f64_exact(9, 0, m).to_bits());
            }
            if ty.n == 32 {
                for _ in 0..ctx.q(300, 6000) {
                    let m = (ctx.rng.gen_range(0..32768u64) << 1) | 1;
                    srcs.push(gen::to_f64_exact(17, 1, m).to_bits());
                }
            }
            for &vb in &srcs {
                let base = match peek(ty, "from_f64", &[vb]) { Some(p) => p, None => continue };
                for d in [-5i64, -2, -1, 0, 1, 2, 5] {
                    let p = ((base as i64 + d) as u64) & gen::mask(ty.n);
                    for x in [p, gen::neg(ty.n, p)] {
                        for s in ["f", "i", "m"] {
                            ctx.call(ty, "to_p8", s, &[x]);
                            if ty.n == 32 {
                                ctx.call(ty, "to_p16", s, &[x]);
                            }
                        }
                    }
                }
            }
        }
        for (op, w, sps) in TI {
            let k = ctx.q(40, 2000);
            let xs = gen::ints(*w, &mut ctx.rng, k);
            for &x in xs.iter().step_by(if ctx.thorough { 1 } else { 3 }) {
                for sp in sps.iter() {
                    ctx.call(ty, op, sp, &[x]);
                }
            }
        }
        // floats
        for _ in 0..reps {
            let e64 = ctx.rng.gen_range(1023 - 130..1023 + 130) as u64;
            let x = ((ctx.rng.gen::<u64>() & 1) << 63) | (e64 << 52) | (ctx.rng.gen::<u64>() & ((1 << 52) - 1));
            for sp in ["m", "f", "i", "nt", "nc"] {
                ctx.call(ty, "from_f64", sp, &[x]);
            }
            let y = (f64::from_bits(x) as f32).to_bits() as u64;
            for sp in ["m", "f", "i", "nt"] {
                ctx.call(ty, "from_f32", sp, &[y]);
            }
        }
        for c in CONSTS {
            ctx.call(ty, "const", c, &[]);
        }
        for c in MC {
            ctx.call(ty, "mathconst", c, &[]);
        }
        // clamp
        for _ in 0..reps {
            let mut x: Vec<u64> = (0..3).map(|_| lat[ctx.rng.gen_range(0..lat.len())]).collect();
            let sx = |p: u64| ((p << (64 - ty.n)) as i64) >> (64 - ty.n);
            if sx(x[1]) > sx(x[2]) {
                x.swap(1, 2);
            }
            ctx.call(ty, "clamp", "m", &x);
            ctx.call(ty, "clamp", "o", &x);
        }
    }
    crate::qdrive::spellings(ctx);
}

/// Products whose only information below the leading f bits is a single 1 at the very bottom
/// (gen::lone_bit_pair), placed so that this bit alone decides a rounding tie:
///  * for mul: scales chosen so that the result's last fraction bit is just above the zero run;
///  * for the fused family: an addend c of the same sign, d binades above the product, whose ulp
///    puts the tie exactly on the product's lowest set bit of the leading part.
pub fn lone_bit_cases(ctx: &mut Ctx, n: u32, es: u32, count: usize) -> (Vec<(u64, u64)>, Vec<(u64, u64, u64)>) {
    let f = gen::frac_bits(n, es, 0); // fraction bits of values in [1, 2)
    let maxs = ((n - 2) << es) as i32;
    let mut pairs = Vec::new();
    let mut triples = Vec::new();
    if f < 3 {
        return (pairs, triples);
    }
    // one bucket per distance d between addend and product (plain and with carry), filled evenly: large
    // distances need many trailing zeros in the leading part and are rare among random candidates
    let nb = (f as usize + 4) * 2;
    let quota = (count / nb).max(4);
    let mut buckets: Vec<Vec<(u64, u64, u64)>> = vec![Vec::new(); nb];
    let mut tries = 0usize;
    let max_tries = count * 4000;
    let mut last_hit = 0usize;
    let mut filled = 0usize;
    while tries < max_tries && tries - last_hit < 3_000_000 && (pairs.len() < count || buckets.iter().any(|b| b.len() < quota)) {
        tries += 1;
        if tries % 1024 == 0 {
            let now = pairs.len() + buckets.iter().map(|b| b.len()).sum::<usize>();
            if now != filled {
                filled = now;
                last_hit = tries;
            }
        }
        let (u, v, w, _j) = gen::lone_bit_pair(f, &mut ctx.rng);
        let carry = (w >> f) as i32; // 1 + w/2^f >= 2 ?  (w < 2^(f+1))
        let wl = w & gen::mask(f);
        if wl == 0 {
            continue;
        }
        let z = wl.trailing_zeros();
        let sa = ctx.rng.gen_range(0..(1 << es)) as i32;
        let sb = ctx.rng.gen_range(0..(1 << es)) as i32;
        let a = gen::from_scale(n, es, sa, u << (64 - f));
        let b = gen::from_scale(n, es, sb, v << (64 - f));
        let sp = sa + sb + carry; // scale of the exact product
        // the lowest set bit of the leading part has weight 2^low_w
        let low_w = sp - carry - (f as i32 - z as i32);
        // --- mul: wanted: result ulp = 2^(low_w + 1), i.e. nf(sp) = sp - low_w - 1
        let want_nf = sp - low_w - 1;
        if want_nf >= 0 && gen::frac_bits(n, es, sp.div_euclid(1 << es)) as i32 == want_nf && pairs.len() < count {
            pairs.push((a, b));
        }
        // --- fused: addend at scale S = sp + d with ulp 2^(low_w + 1)
        for d in 1..(f as i32 + 4) {
            let s = sp + d;
            if s > maxs {
                break;
            }
            let nf = gen::frac_bits(n, es, s.div_euclid(1 << es)) as i32;
            let bi = (d as usize - 1) * 2;
            if s - nf == low_w + 1 && buckets[bi].len() < quota {
                let c = gen::from_scale(n, es, s, ctx.rng.gen::<u64>());
                buckets[bi].push((a, b, c));
                break;
            }
            // the same with a carry: c just below 2^(s+1) so that c + a*b lands in the next binade,
            // whose ulp must then sit on the product's lowest leading bit
            if s + 1 <= maxs && buckets[bi + 1].len() < quota {
                let nf1 = gen::frac_bits(n, es, (s + 1).div_euclid(1 << es)) as i32;
                if s + 1 - nf1 == low_w + 1 && d <= nf {
                    // c = 2^(s+1) - j new-ulps (a multiple of the new ulp, so that c + leading part is a tie)
                    let top = gen::from_scale(n, es, s + 1, 0);
                    let step = 1u64 << (1 + nf - nf1).max(0);
                    let c = top.wrapping_sub(step * ctx.rng.gen_range(1..3u64)) & gen::mask(n - 1);
                    buckets[bi + 1].push((a, b, c));
                    break;
                }
            }
        }
    }
    for b in buckets {
        triples.extend(b);
    }
    (pairs, triples)
}
