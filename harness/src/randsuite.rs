//! C19: sampling P8E0 / P16E1 / P32E2 from rand's Standard distribution.
//! The Distribution is driven through the public Rng interface with (a) scripted word streams
//! that enumerate the samplers' pre-image and (b) StdRng streams over many seeds.
use crate::drive::Ctx;
use crate::guard::{guarded, set_current};
use crate::sink::{event, Outcome};
use crate::val::Val;
use rand::distributions::{Distribution, Standard};
use rand::rngs::StdRng;
use rand::{Rng, RngCore, SeedableRng};
use softposit::{P16E1, P32E2, P8E0};

/// an RNG that replays a script of 32-bit words (then falls back to a counter)
pub struct Script {
    pub words: Vec<u32>,
    pub i: usize,
}
impl RngCore for Script {
    fn next_u32(&mut self) -> u32 {
        let w = if self.i < self.words.len() { self.words[self.i] } else { (self.i as u32).wrapping_mul(0x9E37_79B9) };
        self.i += 1;
        w
    }
    fn next_u64(&mut self) -> u64 {
        let lo = self.next_u32() as u64;
        let hi = self.next_u32() as u64;
        (hi << 32) | lo
    }
    fn fill_bytes(&mut self, dest: &mut [u8]) {
        for chunk in dest.chunks_mut(4) {
            let w = self.next_u32().to_le_bytes();
            chunk.copy_from_slice(&w[..chunk.len()]);
        }
    }
    fn try_fill_bytes(&mut self, dest: &mut [u8]) -> Result<(), rand::Error> {
        self.fill_bytes(dest);
        Ok(())
    }
}

fn sample_any<R: Rng>(t: &str, rng: &mut R) -> u64 {
    match t {
        "p8" => { let p: P8E0 = Standard.sample(rng); p.to_bits() as u64 }
        "p16" => { let p: P16E1 = Standard.sample(rng); p.to_bits() as u64 }
        _ => { let p: P32E2 = Standard.sample(rng); p.to_bits() as u64 }
    }
}

fn emit(ctx: &mut Ctx, t: &'static str, sp: &'static str, words: &[u32], out: Outcome, seen: &mut std::collections::HashSet<u64>) {
    let extra = [("w", format!("{:?}", words))];
    if let Outcome::Ok(v) = &out {
        if seen.insert(v[0].u()) {
            use std::hash::{Hash, Hasher};
            let mut h = std::collections::hash_map::DefaultHasher::new();
            (t, v[0].u()).hash(&mut h);
            if v[0].u() != 0 {
                ctx.sink.nontrivial.insert(h.finish());
            }
        }
    } else {
        ctx.sink.panics += 1;
    }
    let line = event("sample", t, sp, &extra, &[], &out);
    ctx.sink.line(&line);
    *ctx.sink.per_op.entry(format!("{}.sample.{}", t, sp)).or_insert(0) += 1;
}

fn scripted(ctx: &mut Ctx, t: &'static str, words: Vec<u32>, seen: &mut std::collections::HashSet<u64>) {
    set_current("sample", t, "script", 0, &[words.first().copied().unwrap_or(0) as u64]);
    let mut rng = Script { words: words.clone(), i: 0 };
    let out = guarded(|| Some(vec![Val::U(sample_any(t, &mut rng))])).unwrap();
    emit(ctx, t, "script", &words, out, seen);
}

pub fn suite_c19(ctx: &mut Ctx) {
    // P8: every outcome of gen_range(0..0x40) -- scripted word u << 26 yields u; plus all low-bit variations
    let mut seen = std::collections::HashSet::new();
    for u in 0..64u32 {
        for low in [0u32, 1, 0x03ff_ffff, 0x0200_0000] {
            scripted(ctx, "p8", vec![(u << 26) | low], &mut seen);
        }
    }
    // P16: every value of gen_range(0..0x40000): word u << 14 yields u
    let mut seen16 = std::collections::HashSet::new();
    for u in 0..0x4_0000u32 {
        scripted(ctx, "p16", vec![u << 14], &mut seen16);
    }
    // P32: s = 0x4000_0000 + (w1 >> 5), s2 = w2 >> 30: boundaries of both ranges, then a stride sweep
    let mut seen32 = std::collections::HashSet::new();
    let n27 = 1u32 << 27;
    let mut us: Vec<u32> = vec![0, 1, 2, 3, n27 - 1, n27 - 2, n27 - 3, n27 / 2, n27 / 2 - 1, n27 / 2 + 1, n27 / 4, 3 * (n27 / 4)];
    for k in 0..27 {
        us.push(1 << k);
        us.push((1 << k) - 1);
        us.push(n27 - (1 << k));
    }
    let stride = ctx.q(1 << 11, 1 << 7) as u32;
    let mut u = 0u32;
    while u < n27 {
        us.push(u);
        u += stride;
    }
    for &u in &us {
        for s2 in 0..4u32 {
            scripted(ctx, "p32", vec![u << 5, s2 << 30], &mut seen32);
        }
    }
    // raw extreme words, whatever the mapping from words to draws is: the top and bottom 2^12 words (and a few in the
    // middle) as first word x four second words
    for t in ["p8", "p16", "p32"] {
        let mut seen = std::collections::HashSet::new();
        let span = ctx.q(1 << 12, 1 << 16) as u32;
        for i in 0..span {
            for w1 in [i, u32::MAX - i, 0x8000_0000u32.wrapping_add(i), 0x7fff_ffffu32.wrapping_sub(i)] {
                let w2 = [0u32, u32::MAX, 0x4000_0000, 0xC000_0000][(i % 4) as usize];
                scripted(ctx, t, vec![w1, w2], &mut seen);
            }
        }
        // runs of extreme draws: two to six words from the top (bottom) 32 values of the draw range in a row, then an
        // ordinary word -- a sampler that redraws must keep redrawing
        // (low bits cleared: rand's range sampler rejects words whose low bits are high -- such a word produces no draw)
        let sh = match t { "p8" => 26, "p16" => 14, _ => 5 };
        let top = |j: u32| -> u32 { (u32::MAX - (j << sh)) & !((1u32 << sh) - 1) };
        for i in 0..32u32 {
            for j in 0..32u32 {
                scripted(ctx, t, vec![top(i), top(j), 0x8000_0000], &mut seen);
                if (i + j) % 8 == 0 {
                    scripted(ctx, t, vec![top(i), top(j), top(i ^ 5), top(j ^ 3), 0x8000_0000], &mut seen);
                    scripted(ctx, t, vec![top(i), top(j), top(j), top(i), top(i), top(j), 0x1234_5678], &mut seen);
                    scripted(ctx, t, vec![!top(i), !top(j), 0x8000_0000], &mut seen);
                }
            }
        }
    }
    // StdRng streams over many seeds
    for t in ["p8", "p16", "p32"] {
        let mut seen = std::collections::HashSet::new();
        let nseeds = ctx.q(50, 1000);
        let per = ctx.q(2000, 10_000);
        for s in 0..nseeds {
            let mut rng = StdRng::seed_from_u64(ctx.seed.wrapping_mul(1_000_003).wrapping_add(s as u64));
            for _ in 0..per {
                set_current("sample", t, "std", 0, &[s as u64]);
                let out = guarded(|| Some(vec![Val::U(sample_any(t, &mut rng))])).unwrap();
                emit(ctx, t, "std", &[], out, &mut seen);
            }
        }
        // rng.gen::<T>() spelling
        let mut rng = StdRng::seed_from_u64(ctx.seed ^ 0xabcdef);
        for _ in 0..2000 {
            let out = guarded(|| {
                Some(vec![Val::U(match t {
                    "p8" => rng.gen::<P8E0>().to_bits() as u64,
                    "p16" => rng.gen::<P16E1>().to_bits() as u64,
                    _ => rng.gen::<P32E2>().to_bits() as u64,
                })])
            })
            .unwrap();
            emit(ctx, t, "gen", &[], out, &mut seen);
        }
    }
}

/// a short run of the samplers (C16: sampling must not panic in either profile)
pub fn suite_c19_lite(ctx: &mut Ctx) {
    for t in ["p8", "p16", "p32"] {
        let mut seen = std::collections::HashSet::new();
        let mut rng = StdRng::seed_from_u64(ctx.seed ^ 0x5eed);
        for _ in 0..3000 {
            let out = guarded(|| Some(vec![Val::U(sample_any(t, &mut rng))])).unwrap();
            emit(ctx, t, "std", &[], out, &mut seen);
        }
    }
}
