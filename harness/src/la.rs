//! linalg::quire_dot (feature "linalg"): one more spelling of a quire history -- every entry of the
//! product matrix is one cleared quire fed the products of a row and a column, rounded once.
use crate::drive::Ctx;
use crate::fixed::{Ty, FIXED};
use crate::gen;
use crate::guard::{guarded, set_current};
use crate::sink::{event, Outcome};
use crate::val::Val;
use nalgebra::DMatrix;
use rand::Rng;
use softposit::{QuireDot, P16E1, P32E2, P8E0};

macro_rules! dot_impl {
    ($fname:ident, $P:ty, $U:ty) => {
        /// (m x k) . (k x n) -> m*n entries, row-major
        fn $fname(m: usize, k: usize, n: usize, a: &[u64], b: &[u64]) -> Vec<u64> {
            let ma = DMatrix::from_fn(m, k, |i, j| <$P>::from_bits(a[i * k + j] as $U));
            let mb = DMatrix::from_fn(k, n, |i, j| <$P>::from_bits(b[i * n + j] as $U));
            let c = ma.quire_dot(&mb);
            let mut out = Vec::new();
            for i in 0..m {
                for j in 0..n {
                    out.push(c[(i, j)].to_bits() as u64);
                }
            }
            out
        }
    };
}
dot_impl!(dot_p8, P8E0, u8);
dot_impl!(dot_p16, P16E1, u16);
dot_impl!(dot_p32, P32E2, u32);

pub fn exec_dot(t: &str, m: usize, k: usize, n: usize, a: &[u64], b: &[u64]) -> Option<Vec<u64>> {
    Some(match t {
        "p8" => dot_p8(m, k, n, a, b),
        "p16" => dot_p16(m, k, n, a, b),
        "p32" => dot_p32(m, k, n, a, b),
        _ => return None,
    })
}

fn list(v: &[u64]) -> String {
    let mut s = String::from("[");
    for (i, x) in v.iter().enumerate() {
        if i > 0 {
            s.push(',');
        }
        Val::U(*x).json(&mut s);
    }
    s.push(']');
    s
}

/// one event per entry of the product: the row, the column and the entry
pub fn dot_events(t: &str, m: usize, k: usize, n: usize, a: &[u64], b: &[u64]) -> Vec<String> {
    let out = guarded(|| exec_dot(t, m, k, n, a, b).map(|v| v.into_iter().map(Val::U).collect()));
    let mut lines = Vec::new();
    for i in 0..m {
        for j in 0..n {
            let row: Vec<u64> = (0..k).map(|x| a[i * k + x]).collect();
            let col: Vec<u64> = (0..k).map(|x| b[x * n + j]).collect();
            let o = match &out {
                Some(Outcome::Ok(v)) => Outcome::Ok(vec![v[i * n + j].clone()]),
                Some(Outcome::Panic { msg, loc }) => Outcome::Panic { msg: msg.clone(), loc: loc.clone() },
                None => Outcome::Panic { msg: "harness".into(), loc: "".into() },
            };
            let extra = [("as", list(&row)), ("bs", list(&col)), ("dim", format!("[{},{},{}]", m, k, n))];
            lines.push(event("q_dot", t, "la", &extra, &[], &o));
        }
    }
    lines
}

pub fn suite_dot(ctx: &mut Ctx) {
    for ty in FIXED {
        let lat = gen::lattice(ty.n, ty.es, &mut ctx.rng, 1);
        let reps = ctx.q(400, 8000);
        for r in 0..reps {
            let (m, k, n) = match r % 5 { 0 => (1, 1, 1), 1 => (1, 3, 1), 2 => (2, 2, 2), 3 => (1, 8, 1), _ => (2, 5, 3) };
            let pick = |ctx: &mut Ctx, ty: &Ty| match ctx.rng.gen_range(0..8) {
                0 => gen::random_pattern(ty.n, &mut ctx.rng),
                1 => if ctx.rng.gen_range(0..30) == 0 { gen::nar(ty.n) } else { 0 },
                2 => 1,
                3 => gen::mask(ty.n - 1),
                _ => lat[ctx.rng.gen_range(0..lat.len())],
            };
            let a: Vec<u64> = (0..m * k).map(|_| pick(ctx, ty)).collect();
            let b: Vec<u64> = (0..k * n).map(|_| pick(ctx, ty)).collect();
            set_current("q_dot", ty.name, "la", ty.n, &a);
            for l in dot_events(ty.name, m, k, n, &a, &b) {
                ctx.sink.line(&l);
                *ctx.sink.per_op.entry(format!("{}.q_dot", ty.name)).or_insert(0) += 1;
            }
        }
    }
}
