//! Quire objects: every mutation and observation, every spelling.
//! Spellings of add/sub: "pp" `q += (a, b)`, "m" inherent add_product, "tr" Quire trait method,
//! "p" `q += a`, "p3" `(a,(b,c))`, "p4" `(a,(b,c,e))`, "p22" `((a,b),(c,e))`, "arr" `(a,[b;k])`.
use crate::val::Val;
use softposit::*;

pub enum QAny {
    Q8(Q8E0),
    Q16(Q16E1),
    Q32(Q32E2),
}

fn w32(b: [u64; 8]) -> Vec<u64> {
    let mut v: Vec<u64> = b.to_vec();
    v.reverse();
    v
}
fn b32(w: &[u64]) -> [u64; 8] {
    let mut b = [0u64; 8];
    for i in 0..8 {
        b[7 - i] = w.get(i).copied().unwrap_or(0);
    }
    b
}

macro_rules! qimpl {
    ($fname:ident, $Q:ty, $P:ty, $U:ty, $QA:ty, $bits:expr, $frombits:expr) => {
        /// returns Some(results) for observations, Some(vec![]) for mutations, None if unknown
        #[allow(unreachable_patterns)]
        pub fn $fname(q: &mut $Q, op: &str, sp: &str, x: &[u64], bs: &[u64], big: &[u64]) -> Option<Vec<Val>> {
            let p = |i: usize| <$P>::from_bits(x[i] as $U);
            let rp = |v: $P| Some(vec![Val::U(v.to_bits() as u64)]);
            let tobits: fn(&$Q) -> Vec<u64> = $bits;
            let frombits: fn(&[u64]) -> $Q = $frombits;
            match (op, sp) {
                ("q_init", "m") => { *q = <$Q>::init(); Some(vec![]) }
                ("q_init", "tr") => { *q = <$Q as Quire<$P>>::init(); Some(vec![]) }
                ("q_init", "al") => { *q = <$QA>::init(); Some(vec![]) }
                ("q_init", "zero") => { *q = <$Q>::ZERO; Some(vec![]) }
                ("q_clear", "m") => { q.clear(); Some(vec![]) }
                ("q_clear", "tr") => { <$Q as Quire<$P>>::clear(q); Some(vec![]) }
                ("q_neg", "m") => { q.neg(); Some(vec![]) }
                ("q_neg", "tr") => { <$Q as Quire<$P>>::neg(q); Some(vec![]) }
                ("q_add", "pp") => { *q += (p(0), p(1)); Some(vec![]) }
                ("q_sub", "pp") => { *q -= (p(0), p(1)); Some(vec![]) }
                ("q_add", "m") => { q.add_product(p(0), p(1)); Some(vec![]) }
                ("q_sub", "m") => { q.sub_product(p(0), p(1)); Some(vec![]) }
                ("q_add", "tr") => { <$Q as Quire<$P>>::add_product(q, p(0), p(1)); Some(vec![]) }
                ("q_sub", "tr") => { <$Q as Quire<$P>>::sub_product(q, p(0), p(1)); Some(vec![]) }
                ("q_add", "p") => { *q += p(0); Some(vec![]) }
                ("q_sub", "p") => { *q -= p(0); Some(vec![]) }
                ("q_add", "p3") => { *q += (p(0), (p(1), p(2))); Some(vec![]) }
                ("q_sub", "p3") => { *q -= (p(0), (p(1), p(2))); Some(vec![]) }
                ("q_add", "p4") => { *q += (p(0), (p(1), p(2), p(3))); Some(vec![]) }
                ("q_add", "p22") => { *q += ((p(0), p(1)), (p(2), p(3))); Some(vec![]) }
                ("q_sub", "p22") => { *q -= ((p(0), p(1)), (p(2), p(3))); Some(vec![]) }
                ("q_add", "arr") | ("q_sub", "arr") => {
                    let f = |i: usize| <$P>::from_bits(bs[i] as $U);
                    let add = op == "q_add";
                    match bs.len() {
                        1 => { let a = [f(0)]; if add { *q += (p(0), a) } else { *q -= (p(0), a) } }
                        2 => { let a = [f(0), f(1)]; if add { *q += (p(0), a) } else { *q -= (p(0), a) } }
                        3 => { let a = [f(0), f(1), f(2)]; if add { *q += (p(0), a) } else { *q -= (p(0), a) } }
                        4 => { let a = [f(0), f(1), f(2), f(3)]; if add { *q += (p(0), a) } else { *q -= (p(0), a) } }
                        _ => return None,
                    }
                    Some(vec![])
                }
                ("q_from_posit", "m") => { *q = <$Q>::from_posit(p(0)); Some(vec![]) }
                ("q_from_posit", "f") => { *q = <$Q>::from(p(0)); Some(vec![]) }
                ("q_from_posit", "tr") => { *q = <$Q as Quire<$P>>::from_posit(p(0)); Some(vec![]) }
                ("q_from_bits", "m") => { *q = frombits(big); Some(vec![]) }
                ("q_from_bits", "tr") => { *q = <$Q as Quire<$P>>::from_bits(<$Q>::to_bits(&frombits(big))); Some(vec![]) }
                ("q_to_posit", "m") => rp(q.to_posit()),
                ("q_to_posit", "tr") => rp(<$Q as Quire<$P>>::to_posit(q)),
                ("q_to_posit", "fr") => rp(<$P>::from(&*q)),
                ("q_to_posit", "f") => { let c = frombits(&tobits(q)); rp(<$P>::from(c)) }
                ("q_to_bits", "m") => Some(vec![Val::Big(tobits(q))]),
                ("q_to_bits", "tr") => { let c = <$Q as Quire<$P>>::from_bits(<$Q as Quire<$P>>::to_bits(q)); Some(vec![Val::Big(tobits(&c))]) }
                ("q_is_zero", "m") => Some(vec![Val::B(q.is_zero())]),
                ("q_is_zero", "tr") => Some(vec![Val::B(<$Q as Quire<$P>>::is_zero(q))]),
                ("q_is_nar", "m") => Some(vec![Val::B(q.is_nar())]),
                ("q_is_nar", "tr") => Some(vec![Val::B(<$Q as Quire<$P>>::is_nar(q))]),
                ("q_split2", "m") => { let c = frombits(&tobits(q)); let (a, b) = c.into_two_posits(); Some(vec![Val::U(a.to_bits() as u64), Val::U(b.to_bits() as u64)]) }
                ("q_split3", "m") => { let c = frombits(&tobits(q)); let (a, b, d) = c.into_three_posits(); Some(vec![Val::U(a.to_bits() as u64), Val::U(b.to_bits() as u64), Val::U(d.to_bits() as u64)]) }
                _ => None,
            }
        }
    };
}

qimpl!(q8_exec, Q8E0, P8E0, u8, Q8, |q| vec![q.to_bits() as u64], |w| Q8E0::from_bits(w.first().copied().unwrap_or(0) as u32));
qimpl!(q16_exec, Q16E1, P16E1, u16, Q16, |q| { let b = q.to_bits(); vec![b as u64, (b >> 64) as u64] },
    |w| Q16E1::from_bits((w.first().copied().unwrap_or(0) as u128) | ((w.get(1).copied().unwrap_or(0) as u128) << 64)));
qimpl!(q32_exec, Q32E2, P32E2, u32, Q32, |q| w32(q.to_bits()), |w| Q32E2::from_bits(b32(w)));

impl QAny {
    pub fn new(t: &str) -> QAny {
        match t {
            "p8" => QAny::Q8(Q8E0::init()),
            "p16" => QAny::Q16(Q16E1::init()),
            _ => QAny::Q32(Q32E2::init()),
        }
    }
    pub fn exec(&mut self, op: &str, sp: &str, x: &[u64], bs: &[u64], big: &[u64]) -> Option<Vec<Val>> {
        match self {
            QAny::Q8(q) => q8_exec(q, op, sp, x, bs, big),
            QAny::Q16(q) => q16_exec(q, op, sp, x, bs, big),
            QAny::Q32(q) => q32_exec(q, op, sp, x, bs, big),
        }
    }
    /// (bits, is_zero, is_nar)
    pub fn observe(&self) -> (Vec<u64>, bool, bool) {
        match self {
            QAny::Q8(q) => (vec![q.to_bits() as u64], q.is_zero(), q.is_nar()),
            QAny::Q16(q) => {
                let b = q.to_bits();
                (vec![b as u64, (b >> 64) as u64], q.is_zero(), q.is_nar())
            }
            QAny::Q32(q) => (w32(q.to_bits()), q.is_zero(), q.is_nar()),
        }
    }
}

pub fn is_mutator(op: &str) -> bool {
    matches!(op, "q_init" | "q_clear" | "q_neg" | "q_add" | "q_sub" | "q_from_posit" | "q_from_bits")
}
