//! Driver suites for the generic-width types PxE1<N>, PxE2<N> (C13, C14, generic part of C10).
use crate::drive::Ctx;
use crate::gen;
use crate::generic::exec_px_m;
use crate::guard::{guarded, set_current};
use crate::quire::QAny;
use crate::sink::{event, Outcome};
use crate::val::Val;
use rand::Rng;

const ARGN: [&str; 4] = ["a", "b", "c", "e"];

/// one call on a generic type; `x` are raw 32-bit storages (or ints / float bits for from_*)
pub fn gcall(ctx: &mut Ctx, t: &'static str, n: u32, m: u32, op: &'static str, sp: &'static str, x: &[u64]) -> Option<Vec<Val>> {
    set_current(op, t, sp, n, x);
    let out = guarded(|| exec_px_m(t, n, m, op, sp, x)).unwrap_or_else(|| panic!("harness: no generic op {op}/{sp}/{t}"));
    let mut extra: Vec<(&str, String)> = vec![("n", n.to_string())];
    if m != 0 {
        extra.push(("m", m.to_string()));
    }
    let args: Vec<(&str, Val)> = x.iter().enumerate().map(|(i, v)| (ARGN[i], Val::U(*v))).collect();
    let line = event(op, t, sp, &extra, &args, &out);
    ctx.sink.line(&line);
    *ctx.sink.per_op.entry(format!("{}.{}", t, op)).or_insert(0) += 1;
    if !x.is_empty() && (op.starts_with("from_") || x.iter().all(|&v| v != 0 && v != 0x8000_0000)) {
        use std::hash::{Hash, Hasher};
        let mut h = std::collections::hash_map::DefaultHasher::new();
        (t, n, op, x).hash(&mut h);
        ctx.sink.nontrivial.insert(h.finish());
    }
    match out {
        Outcome::Ok(v) => Some(v),
        Outcome::Panic { .. } => {
            ctx.sink.panics += 1;
            None
        }
    }
}

fn es_of(t: &str) -> u32 {
    if t == "x1" { 1 } else { 2 }
}
fn store(n: u32, p: u64) -> u64 {
    (p << (32 - n)) & 0xffff_ffff
}
fn patterns(ctx: &mut Ctx, t: &str, n: u32, max_all: u32, nrandom: usize) -> Vec<u64> {
    if n <= max_all {
        (0..(1u64 << n)).collect()
    } else {
        let mut v = gen::lattice(n, es_of(t), &mut ctx.rng, 1);
        for _ in 0..nrandom {
            v.push(gen::random_pattern(n, &mut ctx.rng));
        }
        v.sort();
        v.dedup();
        v
    }
}

const BIN: [&str; 4] = ["add", "sub", "mul", "div"];
const TYPES: [&str; 2] = ["x2", "x1"];

pub fn suite_c13(ctx: &mut Ctx) {
    for t in TYPES {
        let es = es_of(t);
        for n in 2..=32u32 {
            // binary operators: all pairs for small widths, lattice pairs with directed partners otherwise
            let all_pairs = n <= ctx.q(6, 9) as u32;
            if all_pairs {
                for a in 0..(1u64 << n) {
                    for b in 0..(1u64 << n) {
                        for (i, op) in BIN.iter().enumerate() {
                            gcall(ctx, t, n, 0, op, if (a + b + i as u64) % 5 == 0 { "a" } else { "o" }, &[store(n, a), store(n, b)]);
                        }
                    }
                }
            } else {
                let lat = gen::lattice(n, es, &mut ctx.rng, 1);
                let np = ctx.q(1200, 30_000);
                for i in 0..np {
                    let a = if i % 7 == 0 { gen::random_pattern(n, &mut ctx.rng) } else { lat[ctx.rng.gen_range(0..lat.len())] };
                    let b = gen::partner(n, es, a, &lat, &mut ctx.rng);
                    for op in BIN {
                        gcall(ctx, t, n, 0, op, "o", &[store(n, a), store(n, b)]);
                    }
                }
                for &a in gen::specials(n).iter() {
                    for &b in gen::specials(n).iter() {
                        for op in BIN {
                            gcall(ctx, t, n, 0, op, "o", &[store(n, a), store(n, b)]);
                        }
                    }
                }
            }
            // fused multiply-add family
            let lat = gen::lattice(n, es, &mut ctx.rng, 1);
            let nt = if n <= 4 { 0 } else { ctx.q(800, 20_000) };
            if n <= 4 {
                for a in 0..(1u64 << n) {
                    for b in 0..(1u64 << n) {
                        for c in 0..(1u64 << n) {
                            for op in ["mul_add", "mul_sub", "sub_product"] {
                                gcall(ctx, t, n, 0, op, "m", &[store(n, a), store(n, b), store(n, c)]);
                            }
                        }
                    }
                }
            }
            for i in 0..nt {
                let a = lat[ctx.rng.gen_range(0..lat.len())];
                let b = lat[ctx.rng.gen_range(0..lat.len())];
                let prod = match guarded(|| exec_px_m(t, n, 0, "mul", "o", &[store(n, a), store(n, b)])) { Some(Outcome::Ok(v)) => v[0].u() >> (32 - n), _ => 0 };
                let c = match ctx.rng.gen_range(0..3) {
                    0 => gen::neg(n, ((prod as i64 + ctx.rng.gen_range(-3i64..=3)) as u64) & gen::mask(n)),
                    1 => gen::partner(n, es, prod, &lat, &mut ctx.rng),
                    _ => lat[ctx.rng.gen_range(0..lat.len())],
                };
                let op = ["mul_add", "mul_sub", "sub_product"][i % 3];
                if op == "sub_product" {
                    gcall(ctx, t, n, 0, op, "m", &[store(n, c), store(n, a), store(n, b)]);
                } else {
                    gcall(ctx, t, n, 0, op, "m", &[store(n, a), store(n, b), store(n, c)]);
                }
            }
            // products whose exact value is a rounding tie plus one far lower bit, alone and fused with an addend at
            // every distance (with and without a carry): the sticky bookkeeping of mul / mul_add
            if n >= 8 {
                let cnt = if n >= 28 { ctx.q(1500, 20_000) } else { ctx.q(150, 2000) };
                let (lp, lt) = crate::drive::lone_bit_cases(ctx, n, es, cnt);
                for &(a, b) in &lp {
                    gcall(ctx, t, n, 0, "mul", "o", &[store(n, a), store(n, b)]);
                }
                for (i, &(a, b, c)) in lt.iter().enumerate() {
                    let (a, c) = if i % 2 == 1 { (gen::neg(n, a), gen::neg(n, c)) } else { (a, c) };
                    gcall(ctx, t, n, 0, "mul_add", "m", &[store(n, a), store(n, b), store(n, c)]);
                    if i % 3 == 0 {
                        gcall(ctx, t, n, 0, "mul_sub", "m", &[store(n, a), store(n, b), store(n, gen::neg(n, c))]);
                        gcall(ctx, t, n, 0, "sub_product", "m", &[store(n, c), store(n, gen::neg(n, a)), store(n, b)]);
                    }
                }
            }
            // exact scalings into a shorter-fraction regime (ties, 1/4, 3/4 remainders) and the same product plus dust
            if n >= 7 {
                let cnt = ctx.q(if n >= 16 { 400 } else { 120 }, if n >= 16 { 8000 } else { 2000 });
                for (i, &(a, bm, bd, c)) in crate::drive::pow2_shift_cases(ctx, n, es, cnt).iter().enumerate() {
                    gcall(ctx, t, n, 0, "mul", "o", &[store(n, a), store(n, bm)]);
                    gcall(ctx, t, n, 0, "div", "o", &[store(n, a), store(n, bd)]);
                    match i % 3 {
                        0 => { gcall(ctx, t, n, 0, "mul_add", "m", &[store(n, a), store(n, bm), store(n, c)]); }
                        1 => { gcall(ctx, t, n, 0, "mul_sub", "m", &[store(n, a), store(n, bm), store(n, c)]); }
                        _ => { gcall(ctx, t, n, 0, "sub_product", "m", &[store(n, c), store(n, a), store(n, bm)]); }
                    }
                }
            }
            // differential screening (selection only; see screen.rs)
            if n >= 5 {
                let k = ctx.q(if n >= 24 { 1 << 21 } else { 1 << 18 }, if n >= 24 { 1 << 26 } else { 1 << 22 });
                crate::screen::screen_generic(ctx, t, n, &["add", "sub", "mul", "div", "mul_add", "mul_sub", "sub_product", "sqrt"], k);
            }
            // unary: sqrt (PxE2 only), round, neg
            let xs = patterns(ctx, t, n, 12, 400);
            for &a in &xs {
                if t == "x2" {
                    gcall(ctx, t, n, 0, "sqrt", "m", &[store(n, a)]);
                }
                gcall(ctx, t, n, 0, "round", "m", &[store(n, a)]);
                gcall(ctx, t, n, 0, "neg", "o", &[store(n, a)]);
            }
        }
    }
}

/// generic part of C10: ordering at every width, with neighbours and the N = 32 boundary
pub fn suite_c10g(ctx: &mut Ctx) {
    const CMP: [(&str, &str); 14] = [("eq", "m"), ("eq", "o"), ("ne", "o"), ("lt", "m"), ("le", "m"), ("gt", "m"), ("ge", "m"),
        ("lt", "o"), ("le", "o"), ("gt", "o"), ("ge", "o"), ("cmp", "m"), ("cmp", "o"), ("partial_cmp", "o")];
    for t in TYPES {
        for n in 2..=32u32 {
            let mut pairs: Vec<(u64, u64)> = Vec::new();
            if n <= 5 {
                for a in 0..(1u64 << n) {
                    for b in 0..(1u64 << n) {
                        pairs.push((a, b));
                    }
                }
            } else {
                let lat = gen::lattice(n, es_of(t), &mut ctx.rng, 0);
                for _ in 0..ctx.q(300, 6000) {
                    let a = lat[ctx.rng.gen_range(0..lat.len())];
                    let b = match ctx.rng.gen_range(0..4) {
                        0 => lat[ctx.rng.gen_range(0..lat.len())],
                        1 => ((a as i64 + ctx.rng.gen_range(-2i64..=2)) as u64) & gen::mask(n),
                        2 => gen::neg(n, a),
                        _ => gen::random_pattern(n, &mut ctx.rng),
                    };
                    pairs.push((a, b));
                }
                for &a in gen::specials(n).iter() {
                    for &b in gen::specials(n).iter() {
                        pairs.push((a, b));
                    }
                }
            }
            for (i, &(a, b)) in pairs.iter().enumerate() {
                let k = if n <= 5 { CMP.len() } else { 5 };
                for j in 0..k {
                    let (op, sp) = CMP[(i * k + j) % CMP.len()];
                    gcall(ctx, t, n, 0, op, sp, &[store(n, a), store(n, b)]);
                }
                if i % 3 == 0 {
                    gcall(ctx, t, n, 0, ["min", "max"][i % 2], "o", &[store(n, a), store(n, b)]);
                }
            }
            for &a in patterns(ctx, t, n, 8, 100).iter() {
                gcall(ctx, t, n, 0, "is_zero", "m", &[store(n, a)]);
                gcall(ctx, t, n, 0, "is_nar", "m", &[store(n, a)]);
                gcall(ctx, t, n, 0, "neg", "o", &[store(n, a)]);
            }
            for c in ["ZERO", "ONE", "NAR", "default"] {
                gcall(ctx, t, n, 0, "const", c, &[]);
            }
        }
    }
}

pub fn suite_c14(ctx: &mut Ctx) {
    for t in TYPES {
        let es = es_of(t);
        for n in 2..=32u32 {
            let xs = patterns(ctx, t, n, ctx.q(10, 12) as u32, ctx.q(300, 4000));
            // generic -> float / int / fixed posit / other generic
            for (i, &a) in xs.iter().enumerate() {
                let s = store(n, a);
                gcall(ctx, t, n, 0, "to_f64", if i % 9 == 0 { "f" } else { "m" }, &[s]);
                gcall(ctx, t, n, 0, "to_f32", if i % 9 == 0 { "f" } else { "m" }, &[s]);
                for op in ["to_i32", "to_u32", "to_i64", "to_u64"] {
                    gcall(ctx, t, n, 0, op, if i % 9 == 0 { "f" } else { "m" }, &[s]);
                }
                for op in ["to_p8", "to_p16", "to_p32"] {
                    gcall(ctx, t, n, 0, op, "f", &[s]);
                }
                if i % 4 == 0 {
                    let m = ctx.rng.gen_range(2..=32);
                    gcall(ctx, t, n, m, "to_x", "f", &[s]);
                    gcall(ctx, t, n, n, "to_x", "f", &[s]);
                }
            }
            // generic -> narrower fixed posit at the target's rounding boundaries: the source patterns nearest to every
            // P8E0 midpoint and to a sample of the P16E1 midpoints, +- 1, 2 source ulps
            if n >= 10 {
                let mut tv: Vec<(f64, &'static str)> = Vec::new();
                for m in (1..256u64).step_by(2) {
                    tv.push((gen::to_f64_exact(9, 0, m), "to_p8"));
                }
                for _ in 0..ctx.q(if n >= 28 { 400 } else { 60 }, if n >= 28 { 8000 } else { 1000 }) {
                    let m = (ctx.rng.gen_range(0..32768u64) << 1) | 1;
                    tv.push((gen::to_f64_exact(17, 1, m), "to_p16"));
                }
                for &(v, op) in &tv {
                    let base = match guarded(|| exec_px_m(t, n, 0, "from_f64", "m", &[v.to_bits()])) { Some(Outcome::Ok(r)) => r[0].u() >> (32 - n), _ => continue };
                    for d in [-2i64, -1, 0, 1, 2] {
                        let p = ((base as i64 + d) as u64) & gen::mask(n);
                        if p == 0 || p == gen::nar(n) {
                            continue;
                        }
                        gcall(ctx, t, n, 0, op, "f", &[store(n, p)]);
                        gcall(ctx, t, n, 0, op, "f", &[store(n, gen::neg(n, p))]);
                    }
                }
            }
            // float -> generic: every rounding boundary of the target (small N) or lattice boundaries, +- float ulps
            let mids: Vec<u64> = if n <= 10 { (0..(1u64 << (n - 1))).map(|p| 2 * p + 1).collect() } else {
                let lat = gen::lattice(n, es, &mut ctx.rng, 0);
                lat.iter().filter(|&&p| p != 0 && p < (1 << (n - 1))).flat_map(|&p| [2 * p + 1, 2 * p - 1]).collect()
            };
            let mut f64s: Vec<u64> = vec![0, 1 << 63, 0x7ff0_0000_0000_0000, 0xfff0_0000_0000_0000, 0x7ff8_0000_0000_0000, 1, 0x3ff0_0000_0000_0000, 0xbff0_0000_0000_0000];
            let mut f32s: Vec<u64> = vec![0, 0x8000_0000, 0x7f80_0000, 0xff80_0000, 0x7fc0_0000, 1, 0x3f80_0000, 0xbf80_0000];
            for &m in &mids {
                if m == 0 || m >= (1 << n) {
                    continue;
                }
                let v = gen::to_f64_exact(n + 1, es, m);
                for d in [-1i64, 0, 1] {
                    f64s.push((v.to_bits() as i64 + d) as u64);
                    f64s.push(((-v).to_bits() as i64 + d) as u64);
                    f32s.push((((v as f32).to_bits() as i64 + d) as u64) & 0xffff_ffff);
                }
                // the tie plus one mantissa bit at a random distance below it
                let j = ctx.rng.gen_range(0..52);
                let s = (ctx.rng.gen::<u64>() & 1) << 63;
                f64s.push((v.to_bits() | (1u64 << j)) ^ s);
                if (v as f32) as f64 == v {
                    let j = ctx.rng.gen_range(0..23);
                    f32s.push((((v as f32).to_bits() | (1u32 << j)) as u64) ^ (s >> 32));
                }
            }
            for &p in xs.iter().step_by(3) {
                if p != 0 && p != gen::nar(n) {
                    let v = gen::to_f64_exact(n, es, p);
                    f64s.push(v.to_bits());
                    f32s.push((v as f32).to_bits() as u64);
                }
            }
            // every binade of the format's range (and a little beyond): the power of two itself, one ulp above, 1.5 x
            for e64 in (1023 - 4 * n as u64 - 6)..=(1023 + 4 * n as u64 + 6) {
                for m in [0u64, 1, 1 << 51] {
                    f64s.push((e64 << 52) | m);
                    if m == 0 || e64 % 3 == 0 {
                        f64s.push((1 << 63) | (e64 << 52) | m);
                    }
                }
                if e64 > 1023 - 127 && e64 < 1023 + 128 {
                    f32s.push((e64 + 127 - 1023) << 23);
                }
            }
            for _ in 0..ctx.q(100, 2000) {
                let e64 = ctx.rng.gen_range(1023 - 130..1023 + 130) as u64;
                f64s.push(((ctx.rng.gen::<u64>() & 1) << 63) | (e64 << 52) | (ctx.rng.gen::<u64>() & ((1 << 52) - 1)));
                f32s.push(ctx.rng.gen::<u32>() as u64);
            }
            f64s.sort(); f64s.dedup(); f32s.sort(); f32s.dedup();
            for (i, &x) in f64s.iter().enumerate() {
                gcall(ctx, t, n, 0, "from_f64", if i % 9 == 0 { "f" } else { "m" }, &[x]);
            }
            for (i, &x) in f32s.iter().enumerate() {
                gcall(ctx, t, n, 0, "from_f32", if i % 9 == 0 { "f" } else { "m" }, &[x]);
            }
            // integers -> generic (PxE1::from_i64 / from_u32 are explicit todo!() stubs: not called)
            let k = ctx.q(60, 1500);
            for &x in gen::ints(32, &mut ctx.rng, k).iter().step_by(if ctx.thorough { 1 } else { 4 }) {
                gcall(ctx, t, n, 0, "from_i32", "m", &[x]);
                if t == "x2" {
                    gcall(ctx, t, n, 0, "from_u32", "m", &[x]);
                }
            }
            for &x in gen::ints(64, &mut ctx.rng, k).iter().step_by(if ctx.thorough { 1 } else { 6 }) {
                gcall(ctx, t, n, 0, "from_u64", "m", &[x]);
                if t == "x2" {
                    gcall(ctx, t, n, 0, "from_i64", "m", &[x]);
                }
            }
            // screening sweeps (selection only; see screen.rs)
            let l2 = ctx.q(16, 19) as u32;
            crate::screen::screen_generic_conv(ctx, t, n, l2);
            // fixed posit -> generic
            for a in 0..256u64 {
                gcall(ctx, t, n, 0, "from_p8", "f", &[a]);
            }
            let step16 = ctx.q(37, 3) as usize;
            for a in (0..65536u64).step_by(step16) {
                gcall(ctx, t, n, 0, "from_p16", "f", &[a]);
            }
            let l32 = gen::lattice(32, 2, &mut ctx.rng, 0);
            for &a in l32.iter().step_by(ctx.q(5, 1)) {
                gcall(ctx, t, n, 0, "from_p32", "f", &[a]);
            }
            // boundaries of the N-bit target expressed as P32 patterns (es = 2 targets only: same exponent size)
            if n < 32 {
                for &m in mids.iter().step_by(if n <= 10 { 1 } else { 3 }) {
                    if m == 0 || m >= (1 << n) {
                        continue;
                    }
                    let (_, scale, nf, f) = gen::decode(n + 1, es, m);
                    let fl = if nf == 0 { 0 } else { f << (64 - nf) };
                    let p = gen::from_scale(32, 2, scale, fl);
                    for d in [-1i64, 0, 1] {
                        gcall(ctx, t, n, 0, "from_p32", "f", &[((p as i64 + d) as u64) & 0xffff_ffff]);
                    }
                }
            }
        }
    }
    // Q32E2 -> PxE2<N>, directed: an exact power of two at every scale of the N-bit format (where the regime
    // cuts exponent bits these are exactly the rounding ties) plus or minus dust far below it
    for n in 3..=32u32 {
        let maxs = ((n - 2) << 2) as i32;
        // powers of two that PxE2<N> represents exactly
        let exact: Vec<(i32, u64)> = (-maxs..=maxs).filter_map(|sc| {
            let p = gen::from_scale(n, 2, sc, 0);
            let (_, s2, _, f) = gen::decode(n, 2, p);
            if s2 == sc && f == 0 { Some((sc, p)) } else { None }
        }).collect();
        let step = if ctx.thorough { 1 } else { 2 };
        for t in (-maxs - 8..=maxs + 8).step_by(step) {
            // a * b = 2^t
            let mut found = None;
            for &(sa, pa) in exact.iter() {
                if let Some(&(_, pb)) = exact.iter().find(|&&(sb, _)| sa + sb == t) {
                    found = Some((pa, pb));
                    if sa.abs() <= (t - sa).abs() {
                        break;
                    }
                }
            }
            let (a, b) = match found { Some(x) => x, None => continue };
            for v in 0..3 {
                ctx.sink.boundary();
                ctx.sink.free = false;
                let mut q = QAny::new("p32");
                gq(ctx, &mut q, n, "q_init", "tr", &[]);
                let neg = v == 2;
                gq(ctx, &mut q, n, if neg { "q_sub" } else { "q_add" }, "pp", &[store(n, a), store(n, b)]);
                // dust: minpos * minpos of the N-bit format (2^(-2 maxs)), added or subtracted
                let mp = store(n, 1);
                gq(ctx, &mut q, n, if (v == 0) ^ neg { "q_add" } else { "q_sub" }, "pp", &[mp, mp]);
                gq(ctx, &mut q, n, "q_to_posit", if t % 2 == 0 { "tr" } else { "fr" }, &[]);
                ctx.sink.free = true;
            }
        }
    }
    // Q32E2 -> PxE2<N>: short histories accumulated with PxE2<N> terms, read back at width N
    for n in 2..=32u32 {
        let lat = gen::lattice(n, 2, &mut ctx.rng, 0);
        for h in 0..ctx.q(60, 1500) {
            ctx.sink.boundary();
            ctx.sink.free = false;
            let mut q = QAny::new("p32");
            gq(ctx, &mut q, n, "q_init", "tr", &[]);
            let len = 1 + h % 5;
            for _ in 0..len {
                let a = store(n, lat[ctx.rng.gen_range(0..lat.len())]);
                let b = store(n, lat[ctx.rng.gen_range(0..lat.len())]);
                match ctx.rng.gen_range(0..5) {
                    0 => gq(ctx, &mut q, n, "q_add", "p", &[a]),
                    1 => gq(ctx, &mut q, n, "q_sub", "pp", &[a, b]),
                    2 => gq(ctx, &mut q, n, "q_add", "tr", &[a, b]),
                    _ => gq(ctx, &mut q, n, "q_add", "pp", &[a, b]),
                };
            }
            gq(ctx, &mut q, n, "q_to_posit", if h % 2 == 0 { "tr" } else { "fr" }, &[]);
            let a = store(n, lat[ctx.rng.gen_range(0..lat.len())]);
            gq(ctx, &mut q, n, "q_from_posit", if h % 2 == 0 { "tr" } else { "f" }, &[a]);
            gq(ctx, &mut q, n, "q_to_posit", "tr", &[]);
            ctx.sink.free = true;
        }
    }
}

fn gq(ctx: &mut Ctx, q: &mut QAny, n: u32, op: &'static str, sp: &'static str, x: &[u64]) -> Option<Vec<Val>> {
    set_current(op, "x2", sp, n, x);
    let out = guarded(|| crate::generic::q_exec_px(q, "x2", n, op, sp, x, &[], &[])).unwrap_or_else(|| panic!("harness: no generic quire op {op}/{sp}"));
    let mut extra: Vec<(&str, String)> = vec![("n", n.to_string()), ("q", "0".to_string())];
    if crate::quire::is_mutator(op) {
        if let Outcome::Ok(_) = out {
            let (bits, z, nn) = q.observe();
            let mut s = String::new();
            Val::Big(bits).json(&mut s);
            extra.push(("bits", s));
            extra.push(("z", z.to_string()));
            extra.push(("nn", nn.to_string()));
        }
    }
    let args: Vec<(&str, Val)> = x.iter().enumerate().map(|(i, v)| (ARGN[i], Val::U(*v))).collect();
    let line = event(op, "x2", sp, &extra, &args, &out);
    ctx.sink.line(&line);
    *ctx.sink.per_op.entry(format!("x2.{}", op)).or_insert(0) += 1;
    match out {
        Outcome::Ok(v) => Some(v),
        Outcome::Panic { .. } => {
            ctx.sink.panics += 1;
            None
        }
    }
}
