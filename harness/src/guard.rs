//! Run one library call with panics captured as data, and a watchdog for non-termination.
use crate::sink::Outcome;
use crate::val::Val;
use std::cell::RefCell;
use std::panic::{catch_unwind, AssertUnwindSafe};
use std::sync::atomic::{AtomicBool, AtomicU64, Ordering};
use std::sync::Mutex;

thread_local! {
    static LAST_PANIC: RefCell<(String, String)> = RefCell::new((String::new(), String::new()));
}
pub static PROGRESS: AtomicU64 = AtomicU64::new(0);
/// true while control is inside the library under test (the watchdog only times those stretches: the harness's own
/// generator loops may take long without meaning anything)
pub static IN_CALL: AtomicBool = AtomicBool::new(false);
pub static CURRENT: Mutex<(&'static str, &'static str, &'static str, u32, [u64; 4])> = Mutex::new(("", "", "", 0, [0; 4]));

pub fn set_current(op: &'static str, t: &'static str, sp: &'static str, n: u32, x: &[u64]) {
    let mut a = [0u64; 4];
    for (i, v) in x.iter().take(4).enumerate() {
        a[i] = *v;
    }
    if let Ok(mut c) = CURRENT.lock() {
        *c = (op, t, sp, n, a);
    }
}

pub fn install() {
    std::panic::set_hook(Box::new(|info| {
        let msg = if let Some(s) = info.payload().downcast_ref::<&str>() {
            s.to_string()
        } else if let Some(s) = info.payload().downcast_ref::<String>() {
            s.clone()
        } else {
            "?".to_string()
        };
        let loc = info
            .location()
            .map(|l| {
                let f = l.file();
                let f = f.strip_prefix("/repo/").unwrap_or(f);
                format!("{}:{}", f, l.line())
            })
            .unwrap_or_default();
        LAST_PANIC.with(|p| *p.borrow_mut() = (msg, loc));
    }));
}

/// `desc` is only materialised when the watchdog fires
pub fn guarded<F: FnOnce() -> Option<Vec<Val>>>(f: F) -> Option<Outcome> {
    PROGRESS.fetch_add(1, Ordering::Relaxed);
    IN_CALL.store(true, Ordering::Relaxed);
    let r = catch_unwind(AssertUnwindSafe(f));
    IN_CALL.store(false, Ordering::Relaxed);
    match r {
        Ok(Some(v)) => Some(Outcome::Ok(v)),
        Ok(None) => None,
        Err(_) => {
            let (msg, loc) = LAST_PANIC.with(|p| p.borrow().clone());
            Some(Outcome::Panic { msg, loc })
        }
    }
}

/// Watchdog: if no call completes for `secs` seconds, write a timeout event for the call in
/// progress to `path` and exit with status 3.
pub fn watchdog(path: String, secs: u64) {
    std::thread::spawn(move || {
        let mut last = PROGRESS.load(Ordering::Relaxed);
        let mut still = 0;
        let mut idle = 0u64;
        loop {
            std::thread::sleep(std::time::Duration::from_millis(500));
            let cur = PROGRESS.load(Ordering::Relaxed);
            if cur == last && cur != 0 && cur != u64::MAX && !IN_CALL.load(Ordering::Relaxed) {
                // the harness itself is busy (input generation): not a property of the library; give up only after 30 min
                idle += 1;
                if idle > 3600 {
                    eprintln!("WATCHDOG: harness stalled outside any library call");
                    std::process::exit(4);
                }
            } else if cur == last && cur != 0 && cur != u64::MAX {
                idle = 0;
                still += 1;
                if still as u64 >= secs * 2 {
                    let c = CURRENT.lock().map(|s| *s).unwrap_or(("?", "?", "?", 0, [0; 4]));
                    let desc = format!(
                        "{{\"op\":\"{}\",\"t\":\"{}\",\"sp\":\"{}\",\"n\":{},\"o\":\"timeout\",\"x\":[{},{},{},{}]}}",
                        c.0, c.1, c.2, c.3, c.4[0], c.4[1], c.4[2], c.4[3]
                    );
                    let _ = std::fs::write(&path, format!("{}\n", desc));
                    eprintln!("WATCHDOG: no progress for {secs}s in: {desc}");
                    std::process::exit(3);
                }
            } else {
                still = 0;
                idle = 0;
                last = cur;
            }
        }
    });
}
