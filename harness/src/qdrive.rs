//! Quire histories (C04, C12) and quire spellings (C17).
use crate::drive::{peek, Ctx};
use crate::fixed::{Ty, FIXED};
use crate::gen;
use crate::guard::{guarded, set_current};
use crate::quire::{is_mutator, QAny};
use crate::sink::{event, Outcome};
use crate::val::Val;
use rand::seq::SliceRandom;
use rand::Rng;

const ARGN: [&str; 4] = ["a", "b", "c", "e"];

/// one quire call: execute, observe, log
pub fn qcall(ctx: &mut Ctx, q: &mut QAny, qi: usize, ty: &Ty, op: &'static str, sp: &'static str, x: &[u64], bs: &[u64], big: &[u64]) -> Option<Vec<Val>> {
    set_current(op, ty.name, sp, ty.n, x);
    let out = guarded(|| q.exec(op, sp, x, bs, big)).unwrap_or_else(|| panic!("harness: no quire op {op}/{sp}"));
    let mut extra: Vec<(&str, String)> = vec![("q", qi.to_string())];
    if !bs.is_empty() {
        let mut s = String::from("[");
        for (i, b) in bs.iter().enumerate() {
            if i > 0 {
                s.push(',');
            }
            Val::U(*b).json(&mut s);
        }
        s.push(']');
        extra.push(("bs", s));
    }
    if is_mutator(op) {
        if let Outcome::Ok(_) = out {
            let (bits, z, nn) = q.observe();
            let mut s = String::new();
            Val::Big(bits).json(&mut s);
            extra.push(("bits", s));
            extra.push(("z", z.to_string()));
            extra.push(("nn", nn.to_string()));
        }
    }
    let mut args: Vec<(&str, Val)> = x.iter().enumerate().map(|(i, v)| (ARGN[i], Val::U(*v))).collect();
    if op == "q_from_bits" {
        args = vec![("a", Val::Big(big.to_vec()))];
    }
    let line = event(op, ty.name, sp, &extra, &args, &out);
    ctx.sink.line(&line);
    *ctx.sink.per_op.entry(format!("{}.{}", ty.name, op)).or_insert(0) += 1;
    if !x.is_empty() && x.iter().all(|&v| v != 0 && v != gen::nar(ty.n)) {
        use std::hash::{Hash, Hasher};
        let mut h = std::collections::hash_map::DefaultHasher::new();
        (ty.name, op, x, bs).hash(&mut h);
        ctx.sink.nontrivial.insert(h.finish());
    }
    match out {
        Outcome::Ok(v) => Some(v),
        Outcome::Panic { .. } => {
            ctx.sink.panics += 1;
            None
        }
    }
}

/// choose a product term (a, b) according to a stress class
fn term(ctx: &mut Ctx, ty: &Ty, lat: &[u64]) -> (u64, u64) {
    let n = ty.n;
    let es = ty.es;
    let maxs = ((n - 2) << es) as i32;
    let sgn = |ctx: &mut Ctx, p: u64| if ctx.rng.gen::<bool>() { gen::neg(n, p) } else { p };
    match ctx.rng.gen_range(0..10) {
        0 | 1 => (lat[ctx.rng.gen_range(0..lat.len())], lat[ctx.rng.gen_range(0..lat.len())]),
        2 => {
            // tiny x tiny: the lowest quire limb
            let a = gen::from_scale(n, es, -maxs + ctx.rng.gen_range(0..6), ctx.rng.gen::<u64>());
            let b = gen::from_scale(n, es, -maxs + ctx.rng.gen_range(0..(maxs / 2).max(1)), ctx.rng.gen::<u64>());
            (sgn(ctx, a), b)
        }
        3 => {
            // huge x huge: the top of the quire
            let a = gen::from_scale(n, es, maxs - ctx.rng.gen_range(0..4), ctx.rng.gen::<u64>());
            let b = gen::from_scale(n, es, maxs - ctx.rng.gen_range(0..(maxs / 2).max(1)), ctx.rng.gen::<u64>());
            (sgn(ctx, a), b)
        }
        4 | 5 => {
            // product straddling a 64-bit limb boundary of the fixed-point image
            let qf = 2 * maxs;
            let limb = ctx.rng.gen_range(0..((n * n / 2) / 64).max(1)) as i32;
            let target = -qf + 64 * limb + ctx.rng.gen_range(-3..4) + if ctx.rng.gen::<bool>() { 0 } else { (n as i32) - 4 };
            let sa = ctx.rng.gen_range(-maxs..=maxs);
            let sb = (target - sa).clamp(-maxs, maxs);
            let a = gen::from_scale(n, es, sa, ctx.rng.gen::<u64>() | (1 << 63));
            let b = gen::from_scale(n, es, sb, ctx.rng.gen::<u64>() | 1 << 40);
            (sgn(ctx, a), b)
        }
        6 => (sgn(ctx, 1), 1),                                      // +- minpos^2
        7 => (sgn(ctx, gen::mask(n - 1)), gen::mask(n - 1)),        // +- maxpos^2
        8 => (gen::random_pattern(n, &mut ctx.rng), gen::random_pattern(n, &mut ctx.rng)),
        _ => (sgn(ctx, 1u64 << (n - 2)), lat[ctx.rng.gen_range(0..lat.len())]), // 1 * x
    }
}

#[derive(Clone)]
struct Step {
    op: &'static str,
    sp: &'static str,
    x: Vec<u64>,
    bs: Vec<u64>,
}

fn random_step(ctx: &mut Ctx, ty: &Ty, lat: &[u64], hist: &[Step]) -> Step {
    let add = ctx.rng.gen::<bool>();
    let op = if add { "q_add" } else { "q_sub" };
    // replay an earlier term with the opposite sign: exact cancellation, long borrow chains
    if !hist.is_empty() && ctx.rng.gen_range(0..6) == 0 {
        let h = &hist[ctx.rng.gen_range(0..hist.len())];
        if h.op == "q_add" || h.op == "q_sub" {
            return Step { op: if h.op == "q_add" { "q_sub" } else { "q_add" }, sp: if h.sp == "p4" { "pp" } else { h.sp }, x: if h.sp == "p4" { h.x[..2].to_vec() } else { h.x.clone() }, bs: h.bs.clone() };
        }
    }
    let (a, b) = term(ctx, ty, lat);
    match ctx.rng.gen_range(0..12) {
        0..=3 => Step { op, sp: "pp", x: vec![a, b], bs: vec![] },
        4 => Step { op, sp: "m", x: vec![a, b], bs: vec![] },
        5 => Step { op, sp: "tr", x: vec![a, b], bs: vec![] },
        6 | 7 => Step { op, sp: "p", x: vec![if ctx.rng.gen::<bool>() { a } else { lat[ctx.rng.gen_range(0..lat.len())] }], bs: vec![] },
        8 => {
            let (c, _) = term(ctx, ty, lat);
            Step { op, sp: "p3", x: vec![a, b, c], bs: vec![] }
        }
        9 => {
            let (c, e) = term(ctx, ty, lat);
            if add { Step { op, sp: "p4", x: vec![a, b, c, e], bs: vec![] } } else { Step { op, sp: "p22", x: vec![a, b, c, e], bs: vec![] } }
        }
        10 => {
            let (c, e) = term(ctx, ty, lat);
            Step { op, sp: "p22", x: vec![a, b, c, e], bs: vec![] }
        }
        _ => {
            let k = ctx.rng.gen_range(1..=4);
            let bs: Vec<u64> = (0..k).map(|_| term(ctx, ty, lat).1).collect();
            Step { op, sp: "arr", x: vec![a], bs }
        }
    }
}

fn run_history(ctx: &mut Ctx, ty: &Ty, qi: usize, steps: &[Step], observe_every: usize, split: bool) {
    let mut q = QAny::new(ty.name);
    qcall(ctx, &mut q, qi, ty, "q_init", "m", &[], &[], &[]);
    for (i, s) in steps.iter().enumerate() {
        qcall(ctx, &mut q, qi, ty, s.op, s.sp, &s.x, &s.bs, &[]);
        if observe_every > 0 && i % observe_every == observe_every - 1 {
            qcall(ctx, &mut q, qi, ty, "q_to_posit", ["m", "tr", "fr", "f"][i % 4], &[], &[], &[]);
        }
    }
    qcall(ctx, &mut q, qi, ty, "q_to_posit", "m", &[], &[], &[]);
    qcall(ctx, &mut q, qi, ty, "q_is_zero", "m", &[], &[], &[]);
    qcall(ctx, &mut q, qi, ty, "q_is_nar", "m", &[], &[], &[]);
    if split {
        qcall(ctx, &mut q, qi, ty, "q_split2", "m", &[], &[], &[]);
        qcall(ctx, &mut q, qi, ty, "q_split3", "m", &[], &[], &[]);
    }
}

/// directed family shared by C04 and C12 (there with the residual split observed on every history)
/// products of two powers of two whose exact value is a rounding MIDPOINT of the format in the regimes where the posit
/// has no fraction (or exponent) bits left -- 2^118 for P32E2 lies exactly between 0x7FFFFFFE and maxpos -- alone and
/// with dust of either sign at chosen distances: only the dust says which way to round
fn extreme_midpoint_histories(ctx: &mut Ctx, ty: &Ty, reps: usize, always_split: bool) {
    let (n, es) = (ty.n, ty.es);
    let maxs = ((n - 2) << es) as i32;
    let lsb: i32 = match n { 8 => -12, 16 => -56, _ => -240 };
    let top = gen::mask(n - 1);
    for r in 0..reps {
        // an odd (n+1)-bit pattern next to the largest or smallest magnitudes
        let p = if r % 2 == 0 { top - (r as u64 / 2) % 6 } else { 1 + (r as u64 / 2) % 6 };
        let v = gen::to_f64_exact(n + 1, es, (if r % 2 == 0 { 2 * p - 1 } else { 2 * p + 1 }) & gen::mask(n));
        let bits = v.to_bits();
        if bits & ((1u64 << 52) - 1) != 0 {
            continue; // not a power of two: has fraction bits, covered by the ordinary tie histories
        }
        let e = ((bits >> 52) & 0x7ff) as i32 - 1023;
        let s1 = (e / 2).clamp(-maxs, maxs);
        let s2 = e - s1;
        if s2.abs() > maxs {
            continue;
        }
        let (a, b) = (gen::from_scale(n, es, s1, 0), gen::from_scale(n, es, s2, 0));
        let (_, d1, _, f1) = gen::decode(n, es, a);
        let (_, d2, _, f2) = gen::decode(n, es, b);
        if d1 != s1 || d2 != s2 || f1 != 0 || f2 != 0 {
            continue;
        }
        let delta = match ctx.rng.gen_range(0..5) { 0 => ctx.rng.gen_range(1..8), 1 => ctx.rng.gen_range(60..70), 2 => ctx.rng.gen_range(120..135), _ => ctx.rng.gen_range(1..(e - lsb).max(2)) };
        let target = (e - delta).max(lsb);
        let t1 = (target / 2).clamp(-maxs, maxs);
        let t2 = target - t1;
        let neg_all = ctx.rng.gen::<bool>();
        let sg = |x: u64| if neg_all { gen::neg(n, x) } else { x };
        let mut steps = vec![Step { op: "q_add", sp: "pp", x: vec![sg(a), b], bs: vec![] }];
        if t2.abs() <= maxs && ctx.rng.gen_range(0..4) != 0 {
            steps.push(Step { op: if ctx.rng.gen::<bool>() { "q_add" } else { "q_sub" }, sp: "pp", x: vec![gen::from_scale(n, es, t1, 0), gen::from_scale(n, es, t2, 0)], bs: vec![] });
        }
        ctx.sink.boundary();
        ctx.sink.free = false;
        run_history(ctx, ty, 0, &steps, 1, always_split || r % 5 == 0);
        ctx.sink.free = true;
    }
}

fn dust_histories(ctx: &mut Ctx, ty: &Ty, nd2: usize, always_split: bool) {
    extreme_midpoint_histories(ctx, ty, (nd2 / 6).max(60), always_split);
    // directed: tie + dust with the dust at a CHOSEN distance below the leading bit (every distance from just below
    // the rounding position to 200 positions down, weighted towards 63..65 and 127..129) and the leading bit at a
    // chosen position within its 64-bit limb (weighted towards the top and bottom bit of a limb)
    let lsb: i32 = match ty.n { 8 => -12, 16 => -56, _ => -240 };
    for h in 0..nd2 {
        let maxs = ((ty.n - 2) << ty.es) as i32;
        // leading-bit scale: position (scale - lsb) mod 64 in {63, 0, 62, 1, random}
        let mut scale = ctx.rng.gen_range(-maxs / 2..maxs - 1);
        let want = match h % 5 { 0 => 63, 1 => 0, 2 => 62, 3 => 1, _ => -1 };
        if want >= 0 {
            let cur = (scale - lsb).rem_euclid(64);
            scale += want - cur;
            if scale >= maxs {
                scale -= 64;
            }
            if scale <= -maxs {
                continue;
            }
        }
        let big = gen::from_scale(ty.n, ty.es, scale, match h % 3 { 0 => 0, 1 => ctx.rng.gen::<u64>(), _ => u64::MAX });
        let (_, sc, nf, _) = gen::decode(ty.n, ty.es, big);
        if sc - (nf as i32) - 1 < -maxs {
            continue;
        }
        let half = gen::from_scale(ty.n, ty.es, sc - nf as i32 - 1, 0);
        let delta = match ctx.rng.gen_range(0..6) {
            0 => ctx.rng.gen_range(63..=65),
            1 => ctx.rng.gen_range(127..=129),
            2 => nf as i32 + 2 + ctx.rng.gen_range(0..4),
            _ => ctx.rng.gen_range(nf as i32 + 2..nf as i32 + 200),
        };
        let target = sc - delta;
        if target < lsb {
            continue;
        }
        // the dust as a product of two powers of two (or with random fractions one time in three)
        let t1 = (target / 2).clamp(-maxs, maxs);
        let t2 = target - t1;
        if t2 < -maxs || t2 > maxs {
            continue;
        }
        let fr = |ctx: &mut Ctx| if ctx.rng.gen_range(0..3) == 0 { ctx.rng.gen::<u64>() } else { 0 };
        let (f1, f2) = (fr(ctx), fr(ctx));
        let dust_a = gen::from_scale(ty.n, ty.es, t1, f1);
        let dust_b = gen::from_scale(ty.n, ty.es, t2, f2);
        ctx.sink.boundary();
        ctx.sink.free = false;
        let neg_all = ctx.rng.gen::<bool>();
        let sg = |p: u64| if neg_all { gen::neg(ty.n, p) } else { p };
        let one = 1u64 << (ty.n - 2);
        let mut steps = vec![
            Step { op: "q_add", sp: "pp", x: vec![sg(big), one], bs: vec![] },
            Step { op: "q_add", sp: "p", x: vec![sg(half)], bs: vec![] },
            Step { op: if ctx.rng.gen::<bool>() { "q_add" } else { "q_sub" }, sp: "pp", x: vec![dust_a, dust_b], bs: vec![] },
        ];
        if h % 3 == 0 {
            steps.swap(0, 2);
        }
        run_history(ctx, ty, 0, &steps, 1, always_split || h % 7 == 0);
        ctx.sink.free = true;
    }
}

pub fn suite_c04(ctx: &mut Ctx) {
    crate::la::suite_dot(ctx);
    // metamorphic screening (selection only)
    for ty in FIXED {
        let l2 = ctx.q(if ty.n == 8 { 20 } else { 23 }, if ty.n == 8 { 24 } else { 28 }) as u32;
        screen_quire(ctx, ty, l2);
    }
    for ty in FIXED {
        let lat = gen::lattice(ty.n, ty.es, &mut ctx.rng, 2);
        let nh = ctx.q(2500, 60_000);
        for h in 0..nh {
            ctx.sink.boundary();
            ctx.sink.free = false;
            let len = match h % 5 { 0 => ctx.rng.gen_range(1..4), 1 | 2 => ctx.rng.gen_range(2..12), 3 => ctx.rng.gen_range(8..33), _ => ctx.rng.gen_range(20..65) };
            let mut steps: Vec<Step> = Vec::new();
            for _ in 0..len {
                let s = random_step(ctx, ty, &lat, &steps);
                steps.push(s);
            }
            // a NaR operand somewhere in 1 history out of 8, then more terms
            if h % 8 == 7 {
                let pos = ctx.rng.gen_range(0..steps.len());
                let k = ctx.rng.gen_range(0..steps[pos].x.len());
                if !steps[pos].bs.is_empty() && ctx.rng.gen::<bool>() {
                    // array forms: NaR among the elements, the scalar factor zero half of the time (0 * NaR is NaR)
                    let j = ctx.rng.gen_range(0..steps[pos].bs.len());
                    steps[pos].bs[j] = gen::nar(ty.n);
                    if ctx.rng.gen::<bool>() {
                        steps[pos].x[0] = 0;
                    }
                } else {
                    steps[pos].x[k] = gen::nar(ty.n);
                    // ... and the other factor zero now and then
                    if steps[pos].x.len() == 2 && ctx.rng.gen_range(0..3) == 0 {
                        steps[pos].x[1 - k] = 0;
                    }
                }
            }
            run_history(ctx, ty, 0, &steps, 4, false);
            // the same bag of terms in another order must give the same quire (order independence)
            if h % 3 == 0 {
                let mut sh = steps.clone();
                sh.shuffle(&mut ctx.rng);
                run_history(ctx, ty, 1, &sh, 0, false);
            }
            ctx.sink.free = true;
        }
        // directed: zero times NaR in every product spelling, on an empty and on a non-empty quire
        for v in 0..24usize {
            let nar = gen::nar(ty.n);
            let one = 1u64 << (ty.n - 2);
            let s = match v % 8 {
                0 => Step { op: "q_add", sp: "pp", x: vec![0, nar], bs: vec![] },
                1 => Step { op: "q_sub", sp: "pp", x: vec![nar, 0], bs: vec![] },
                2 => Step { op: "q_add", sp: "m", x: vec![0, nar], bs: vec![] },
                3 => Step { op: "q_add", sp: "tr", x: vec![nar, 0], bs: vec![] },
                4 => Step { op: "q_add", sp: "arr", x: vec![0], bs: vec![one, nar] },
                5 => Step { op: "q_sub", sp: "arr", x: vec![0], bs: vec![nar] },
                6 => Step { op: "q_add", sp: "arr", x: vec![0], bs: vec![one, one, one, nar] },
                _ => Step { op: "q_add", sp: "p22", x: vec![0, nar, one, one], bs: vec![] },
            };
            let mut steps = vec![];
            if v >= 8 {
                steps.push(Step { op: "q_add", sp: "pp", x: vec![one, one], bs: vec![] });
            }
            steps.push(s);
            if v >= 16 {
                steps.push(Step { op: "q_add", sp: "pp", x: vec![one, one], bs: vec![] });
            }
            ctx.sink.boundary();
            ctx.sink.free = false;
            run_history(ctx, ty, 0, &steps, 1, false);
            ctx.sink.free = true;
        }
        // directed: a sum that is an exact rounding tie in its leading bits plus "dust" far below
        // (more than 64 bit positions away, across limb boundaries): the dust alone decides the rounding
        let nd = ctx.q(600, 12_000);
        for h in 0..nd {
            ctx.sink.boundary();
            ctx.sink.free = false;
            let maxs = ((ty.n - 2) << ty.es) as i32;
            let scale = ctx.rng.gen_range(-maxs / 2..maxs);
            let big = gen::from_scale(ty.n, ty.es, scale, match h % 4 { 0 => 0, 1 => ctx.rng.gen::<u64>(), 2 => u64::MAX, _ => 1u64 << 63 });
            let (_, sc, nf, _) = gen::decode(ty.n, ty.es, big);
            let half = gen::from_scale(ty.n, ty.es, sc - nf as i32 - 1, 0);
            let one = 1u64 << (ty.n - 2);
            let dust_a = gen::from_scale(ty.n, ty.es, ctx.rng.gen_range(-maxs..(sc - 70).max(-maxs + 1)), ctx.rng.gen::<u64>());
            let dust_b = if ctx.rng.gen::<bool>() { dust_a } else { gen::from_scale(ty.n, ty.es, ctx.rng.gen_range(-maxs..0), ctx.rng.gen::<u64>()) };
            let neg_all = ctx.rng.gen::<bool>();
            let sg = |p: u64| if neg_all { gen::neg(ty.n, p) } else { p };
            let mut steps = vec![
                Step { op: "q_add", sp: "pp", x: vec![sg(big), one], bs: vec![] },
                Step { op: "q_add", sp: "p", x: vec![sg(half)], bs: vec![] },
                Step { op: if ctx.rng.gen::<bool>() { "q_add" } else { "q_sub" }, sp: "pp", x: vec![dust_a, dust_b], bs: vec![] },
            ];
            if h % 3 == 0 {
                steps.swap(0, 2);
            }
            run_history(ctx, ty, 0, &steps, 1, h % 5 == 0);
            ctx.sink.free = true;
        }
        let nd2 = ctx.q(1500, 30_000);
        dust_histories(ctx, ty, nd2, false);
        // directed: single products of operands with dense fractions (all ones / random with the last bit set)
        // for every pair of operand shapes (regime x exponent): every alignment of the product's lowest bit
        // against the quire's 64-bit limbs, with and without a mantissa carry; the bit image must be exact
        {
            let kmax = ty.n as i32 - 2;
            let mut shapes: Vec<(i32, u32)> = Vec::new();
            for k in -kmax..=kmax {
                for e in 0..(1u32 << ty.es) {
                    shapes.push((k, e));
                }
            }
            let near: Vec<(i32, u32)> = shapes.iter().cloned().filter(|&(k, _)| k >= -3 && k <= 2).collect();
            let mut pairs: Vec<((i32, u32), (i32, u32))> = Vec::new();
            for &sa in &near {
                for &sb in &near {
                    pairs.push((sa, sb));
                }
            }
            for _ in 0..ctx.q(2500, 60_000) {
                pairs.push((shapes[ctx.rng.gen_range(0..shapes.len())], shapes[ctx.rng.gen_range(0..shapes.len())]));
            }
            for (v, &((ka, ea), (kb, eb))) in pairs.iter().enumerate() {
                ctx.sink.boundary();
                ctx.sink.free = false;
                let fa = if v % 2 == 0 { u64::MAX } else { ctx.rng.gen::<u64>() | 1 };
                let fb = if v % 4 < 2 { u64::MAX } else { ctx.rng.gen::<u64>() | 1 };
                let mut a = gen::compose(ty.n, ty.es, ka, ea, fa);
                let b = gen::compose(ty.n, ty.es, kb, eb, fb);
                if v % 3 == 0 { a = gen::neg(ty.n, a); }
                let steps = vec![Step { op: if v % 5 == 0 { "q_sub" } else { "q_add" }, sp: ["pp", "m", "tr"][v % 3], x: vec![a, b], bs: vec![] }];
                run_history(ctx, ty, 0, &steps, 0, false);
                ctx.sink.free = true;
            }
        }
        // directed: carry/borrow chains around zero and at the top
        ctx.sink.boundary();
        ctx.sink.free = false;
        let one = 1u64 << (ty.n - 2);
        let mp = gen::mask(ty.n - 1);
        let seqs: Vec<Vec<Step>> = vec![
            vec![Step { op: "q_add", sp: "pp", x: vec![1, 1], bs: vec![] }, Step { op: "q_sub", sp: "pp", x: vec![1, 1], bs: vec![] }, Step { op: "q_sub", sp: "pp", x: vec![1, 1], bs: vec![] }, Step { op: "q_add", sp: "pp", x: vec![1, 1], bs: vec![] }],
            vec![Step { op: "q_sub", sp: "pp", x: vec![1, 1], bs: vec![] }, Step { op: "q_add", sp: "pp", x: vec![mp, mp], bs: vec![] }, Step { op: "q_add", sp: "pp", x: vec![1, 1], bs: vec![] }, Step { op: "q_sub", sp: "pp", x: vec![mp, mp], bs: vec![] }],
            vec![Step { op: "q_add", sp: "p", x: vec![one], bs: vec![] }, Step { op: "q_sub", sp: "pp", x: vec![1, 1], bs: vec![] }, Step { op: "q_sub", sp: "p", x: vec![one], bs: vec![] }, Step { op: "q_add", sp: "pp", x: vec![1, 1], bs: vec![] }],
            vec![Step { op: "q_add", sp: "pp", x: vec![mp, mp], bs: vec![] }, Step { op: "q_add", sp: "pp", x: vec![mp, mp], bs: vec![] }, Step { op: "q_sub", sp: "pp", x: vec![mp, mp], bs: vec![] }, Step { op: "q_sub", sp: "pp", x: vec![1, mp], bs: vec![] }],
            vec![Step { op: "q_add", sp: "pp", x: vec![gen::nar(ty.n), one], bs: vec![] }, Step { op: "q_add", sp: "pp", x: vec![one, one], bs: vec![] }, Step { op: "q_sub", sp: "p", x: vec![one], bs: vec![] }],
            vec![Step { op: "q_add", sp: "pp", x: vec![0, gen::nar(ty.n)], bs: vec![] }, Step { op: "q_add", sp: "tr", x: vec![0, gen::nar(ty.n)], bs: vec![] }],
            vec![Step { op: "q_add", sp: "pp", x: vec![one, one], bs: vec![] }, Step { op: "q_add", sp: "tr", x: vec![gen::nar(ty.n), 0], bs: vec![] }, Step { op: "q_add", sp: "m", x: vec![one, one], bs: vec![] }],
        ];
        for s in &seqs {
            run_history(ctx, ty, 0, s, 1, true);
        }
        ctx.sink.free = true;
    }
}

pub fn suite_c12(ctx: &mut Ctx) {
    // metamorphic screening (selection only): neg, clear, round trip and image routes
    for ty in FIXED {
        let l2 = ctx.q(if ty.n == 8 { 19 } else { 22 }, if ty.n == 8 { 23 } else { 27 }) as u32;
        screen_quire(ctx, ty, l2);
    }
    // tie + dust at chosen distances and limb alignments, each observed through into_two / into_three_posits
    for ty in FIXED {
        let k = ctx.q(600, 12_000);
        dust_histories(ctx, ty, k, true);
    }
    for ty in FIXED {
        let lat = gen::lattice(ty.n, ty.es, &mut ctx.rng, 2);
        // round trip posit -> quire -> posit
        let xs: Vec<u64> = if ty.n <= 16 { (0..(1u64 << ty.n)).collect() } else {
            let mut v = lat.clone();
            for _ in 0..ctx.q(30_000, 600_000) { v.push(gen::random_pattern(32, &mut ctx.rng)); }
            v
        };
        let mut q = QAny::new(ty.name);
        for (i, &a) in xs.iter().enumerate() {
            let sp = if i % 16 == 1 { "f" } else if i % 16 == 2 { "tr" } else { "m" };
            // (a shard may start at from_posit, which overwrites the quire, but not between the two)
            ctx.sink.free = true;
            qcall(ctx, &mut q, 0, ty, "q_from_posit", sp, &[a], &[], &[]);
            ctx.sink.free = false;
            qcall(ctx, &mut q, 0, ty, "q_to_posit", if i % 16 == 3 { "tr" } else { "m" }, &[], &[], &[]);
            ctx.sink.free = true;
        }
        // directed: states with a single non-zero limb (a power of two at each end of each 64-bit limb of the
        // fixed-point image, and maxpos^2 / minpos^2), negated twice and cancelled: carries across every limb
        {
            let maxs = ((ty.n - 2) << ty.es) as i32;
            let qf = 2 * maxs;
            let w = (ty.n * ty.n / 2) as i32;
            let mut scales: Vec<i32> = vec![2 * maxs, -2 * maxs, 0];
            let mut pos = 0;
            while pos < w - 1 {
                for j in [0, 1, 62, 63] {
                    scales.push(pos + j - qf);
                }
                pos += 64;
            }
            for (h, &sc) in scales.iter().enumerate() {
                if sc > 2 * maxs || sc < -2 * maxs {
                    continue;
                }
                let sa = (sc / 2).clamp(-maxs, maxs);
                let sb = (sc - sa).clamp(-maxs, maxs);
                // powers of two need scales on the exponent grid of a long regime: from_scale truncates; use what it gives
                let a = gen::from_scale(ty.n, ty.es, sa, 0);
                let b = gen::from_scale(ty.n, ty.es, sb, 0);
                for sign in [false, true] {
                    ctx.sink.boundary();
                    ctx.sink.free = false;
                    let mut q = QAny::new(ty.name);
                    qcall(ctx, &mut q, 0, ty, "q_init", "m", &[], &[], &[]);
                    qcall(ctx, &mut q, 0, ty, if sign { "q_sub" } else { "q_add" }, "pp", &[a, b], &[], &[]);
                    qcall(ctx, &mut q, 0, ty, "q_neg", if h % 2 == 0 { "m" } else { "tr" }, &[], &[], &[]);
                    qcall(ctx, &mut q, 0, ty, "q_to_posit", "m", &[], &[], &[]);
                    qcall(ctx, &mut q, 0, ty, if sign { "q_sub" } else { "q_add" }, "pp", &[a, b], &[], &[]);
                    qcall(ctx, &mut q, 0, ty, "q_is_zero", "m", &[], &[], &[]);
                    qcall(ctx, &mut q, 0, ty, "q_add", "pp", &[a, b], &[], &[]);
                    qcall(ctx, &mut q, 0, ty, "q_neg", "m", &[], &[], &[]);
                    qcall(ctx, &mut q, 0, ty, "q_neg", "m", &[], &[], &[]);
                    qcall(ctx, &mut q, 0, ty, "q_split2", "m", &[], &[], &[]);
                    ctx.sink.free = true;
                }
            }
        }
        // neg / clear / bits round trip / split at every kind of reachable state
        let nh = ctx.q(2500, 50_000);
        for h in 0..nh {
            ctx.sink.boundary();
            ctx.sink.free = false;
            let mut q = QAny::new(ty.name);
            qcall(ctx, &mut q, 0, ty, "q_init", ["m", "tr", "al", "zero"][h % 4], &[], &[], &[]);
            let len = ctx.rng.gen_range(1..16);
            let mut steps: Vec<Step> = Vec::new();
            for _ in 0..len {
                let s = random_step(ctx, ty, &lat, &steps);
                if h % 10 == 9 && steps.len() == 1 {
                    let mut s2 = s.clone();
                    s2.x[0] = gen::nar(ty.n);
                    qcall(ctx, &mut q, 0, ty, s2.op, s2.sp, &s2.x, &s2.bs, &[]);
                }
                qcall(ctx, &mut q, 0, ty, s.op, s.sp, &s.x, &s.bs, &[]);
                steps.push(s);
                match ctx.rng.gen_range(0..8) {
                    0 => { qcall(ctx, &mut q, 0, ty, "q_neg", if h % 2 == 0 { "m" } else { "tr" }, &[], &[], &[]); }
                    1 => { qcall(ctx, &mut q, 0, ty, "q_to_posit", "m", &[], &[], &[]); }
                    2 => {
                        // from_bits(to_bits(q)) reproduces q
                        if let Some(v) = qcall(ctx, &mut q, 0, ty, "q_to_bits", if h % 2 == 0 { "m" } else { "tr" }, &[], &[], &[]) {
                            if let Val::Big(w) = &v[0] {
                                let w = w.clone();
                                let mut q2 = QAny::new(ty.name);
                                qcall(ctx, &mut q2, 1, ty, "q_from_bits", if h % 2 == 0 { "m" } else { "tr" }, &[], &[], &w);
                                qcall(ctx, &mut q2, 1, ty, "q_to_posit", "m", &[], &[], &[]);
                            }
                        }
                    }
                    3 if ctx.rng.gen_range(0..4) == 0 => { qcall(ctx, &mut q, 0, ty, "q_clear", if h % 2 == 0 { "m" } else { "tr" }, &[], &[], &[]); }
                    _ => {}
                }
            }
            qcall(ctx, &mut q, 0, ty, "q_neg", "m", &[], &[], &[]);
            qcall(ctx, &mut q, 0, ty, "q_to_posit", "m", &[], &[], &[]);
            qcall(ctx, &mut q, 0, ty, "q_split2", "m", &[], &[], &[]);
            qcall(ctx, &mut q, 0, ty, "q_split3", "m", &[], &[], &[]);
            qcall(ctx, &mut q, 0, ty, "q_is_zero", "tr", &[], &[], &[]);
            qcall(ctx, &mut q, 0, ty, "q_is_nar", "tr", &[], &[], &[]);
            qcall(ctx, &mut q, 0, ty, "q_clear", "m", &[], &[], &[]);
            ctx.sink.free = true;
        }
    }
}

/// C17: every quire spelling on the same terms
pub fn spellings(ctx: &mut Ctx) {
    for ty in FIXED {
        let lat = gen::lattice(ty.n, ty.es, &mut ctx.rng, 1);
        let n = ctx.q(300, 5000);
        for h in 0..n {
            ctx.sink.boundary();
            ctx.sink.free = false;
            let (a, b) = if h % 7 == 0 { ([0, gen::nar(ty.n)][h % 2], [gen::nar(ty.n), 0][h % 2]) } else { term(ctx, ty, &lat) };
            let (c, e) = term(ctx, ty, &lat);
            for (sp, x, bs) in [("pp", vec![a, b], vec![]), ("m", vec![a, b], vec![]), ("tr", vec![a, b], vec![]), ("p", vec![a], vec![]),
                                ("p3", vec![a, b, c], vec![]), ("p22", vec![a, b, c, e], vec![]), ("arr", vec![a], vec![b, c, e])] {
                for op in ["q_add", "q_sub"] {
                    let mut q = QAny::new(ty.name);
                    qcall(ctx, &mut q, 0, ty, "q_init", ["m", "tr", "al"][h % 3], &[], &[], &[]);
                    qcall(ctx, &mut q, 0, ty, "q_add", "pp", &[c, e], &[], &[]);
                    qcall(ctx, &mut q, 0, ty, op, sp, &x, &bs, &[]);
                    for s in ["m", "tr", "fr", "f"] {
                        qcall(ctx, &mut q, 0, ty, "q_to_posit", s, &[], &[], &[]);
                    }
                    qcall(ctx, &mut q, 0, ty, "q_to_bits", "tr", &[], &[], &[]);
                    qcall(ctx, &mut q, 0, ty, "q_is_zero", "tr", &[], &[], &[]);
                    qcall(ctx, &mut q, 0, ty, "q_is_nar", "tr", &[], &[], &[]);
                    qcall(ctx, &mut q, 0, ty, "q_neg", "tr", &[], &[], &[]);
                    qcall(ctx, &mut q, 0, ty, "q_clear", "tr", &[], &[], &[]);
                }
            }
            let mut q = QAny::new(ty.name);
            qcall(ctx, &mut q, 0, ty, "q_add", "p4", &[a, b, c, e], &[], &[]);
            for s in ["m", "f", "tr"] {
                qcall(ctx, &mut q, 0, ty, "q_from_posit", s, &[a], &[], &[]);
            }
            ctx.sink.free = true;
        }
    }
    // crafted bit images through from_bits (inherent and trait), observed with both spellings of is_nar / is_zero /
    // to_bits: the NaR image, its neighbours (sign bit plus one low bit, plus one middle bit), all ones, a lone low bit
    for ty in FIXED {
        let words: usize = match ty.n { 8 => 1, 16 => 2, _ => 8 };
        let topbit: u64 = if ty.n == 8 { 1 << 31 } else { 1 << 63 };
        let full: u64 = if ty.n == 8 { 0xffff_ffff } else { u64::MAX };
        let mut imgs: Vec<Vec<u64>> = Vec::new();
        let z = vec![0u64; words];
        let mut nar = z.clone(); nar[words - 1] = topbit; imgs.push(nar.clone());
        let mut a = nar.clone(); a[0] |= 1; imgs.push(a);
        let mut a = nar.clone(); a[words / 2] |= 1 << 7; imgs.push(a);
        let mut a = nar.clone(); a[words - 1] |= 1; imgs.push(a);
        imgs.push(vec![full; words]);
        let mut a = z.clone(); a[0] = 1; imgs.push(a);
        let mut a = z.clone(); a[words - 1] = topbit >> 1; imgs.push(a);
        let mut a = vec![full; words]; a[words - 1] = topbit; imgs.push(a);
        imgs.push(z.clone());
        for img in &imgs {
            for sp in ["m", "tr"] {
                ctx.sink.boundary();
                ctx.sink.free = false;
                let mut q = QAny::new(ty.name);
                qcall(ctx, &mut q, 0, ty, "q_init", "m", &[], &[], &[]);
                qcall(ctx, &mut q, 0, ty, "q_from_bits", sp, &[], &[], img);
                for s in ["m", "tr"] {
                    qcall(ctx, &mut q, 0, ty, "q_is_nar", s, &[], &[], &[]);
                    qcall(ctx, &mut q, 0, ty, "q_is_zero", s, &[], &[], &[]);
                    qcall(ctx, &mut q, 0, ty, "q_to_bits", s, &[], &[], &[]);
                }
                ctx.sink.free = true;
            }
        }
    }
    let _ = peek;
}

// ---------------------------------------------------------------------------------------------------------------
// Metamorphic screening of the quire (selection only): for 2^k random small histories the implementation is compared
// with ITSELF along routes that must agree for an exact accumulator --
//   (A) q + ab - ab = q               (bit image)
//   (B) (q + ab) + cd = (q + cd) + ab
//   (C) q + (a, b) = q + (b, a);  q - (a, b) = q + (-a, b)
//   (D) neg(neg(q)) = q;  neg(q + ab) = neg(q) - ab
//   (E) is_zero agrees with the image being all zero; to_posit(from_posit(a)) = a
// A history on which any route disagrees (or the library panics) is logged step by step and judged by the
// specification; agreement proves nothing and is reported only as `screened`.
// ---------------------------------------------------------------------------------------------------------------
fn meta_history(ty: &Ty, seed: u64, i: u64) -> (Vec<(u64, u64)>, (u64, u64), (u64, u64)) {
    use crate::screen::Sm;
    let mut rng = Sm(seed ^ i.wrapping_mul(0xD6E8_FEB8_6659_FD93));
    let (n, es) = (ty.n, ty.es);
    let maxs = ((n - 2) << es) as i32;
    let mut pick = |rng: &mut Sm| -> u64 {
        // every regime equally likely; dense, sparse and all-ones fractions; now and then minpos / maxpos themselves
        let s = rng.gen_range(-maxs..=maxs);
        let fr = match rng.gen_range(0..5) { 0 => 0, 1 => u64::MAX, 2 => 1u64 << rng.gen_range(0..64), _ => rng.gen::<u64>() };
        let p = match rng.gen_range(0..12) { 0 => 1, 1 => gen::mask(n - 1), _ => gen::from_scale(n, es, s, fr) };
        if rng.gen::<bool>() { gen::neg(n, p) } else { p }
    };
    let k = rng.gen_range(0..4);
    let base: Vec<(u64, u64)> = (0..k).map(|_| (pick(&mut rng), pick(&mut rng))).collect();
    let ab = (pick(&mut rng), pick(&mut rng));
    let cd = if rng.gen_range(0..4) == 0 { ab } else { (pick(&mut rng), pick(&mut rng)) };
    (base, ab, cd)
}

/// (F) the image against a plain 512-bit two's-complement accumulation of the exact products (harness-side integers;
/// a pointer like the other routes -- the verdict on a selected history is the specification's)
fn model_image(ty: &Ty, terms: &[(u64, u64, bool)]) -> Option<Vec<u64>> {
    let (n, es) = (ty.n, ty.es);
    let (lsb, words): (i32, usize) = match n { 8 => (-12, 1), 16 => (-56, 2), _ => (-240, 8) };
    let mut acc = [0u64; 8];
    for &(a, b, sub) in terms {
        if a == gen::nar(n) || b == gen::nar(n) {
            return None;
        }
        if a == 0 || b == 0 {
            continue;
        }
        let (sa, ea, nfa, fa) = gen::decode(n, es, a);
        let (sb, eb, nfb, fb) = gen::decode(n, es, b);
        let m = (((1u128 << nfa) | fa as u128) * ((1u128 << nfb) | fb as u128)) as u128;
        let e = ea - nfa as i32 + eb - nfb as i32;
        let sh = e - lsb;
        if sh < 0 || sh > 500 {
            return None;
        }
        // m << sh into 8 little-endian words
        let mut t = [0u64; 8];
        let (w, o) = ((sh / 64) as usize, (sh % 64) as u32);
        let lo = m as u64;
        let hi = (m >> 64) as u64;
        let parts = [lo << o, if o == 0 { hi } else { (lo >> (64 - o)) | (hi << o) }, if o == 0 { 0 } else { hi >> (64 - o) }];
        for (k, p) in parts.iter().enumerate() {
            if w + k < 8 {
                t[w + k] = *p;
            } else if *p != 0 {
                return None;
            }
        }
        let negative = (sa != sb) != sub;
        if negative {
            // two's complement negate
            let mut c = 1u64;
            for x in t.iter_mut() {
                let (v, o1) = (!*x).overflowing_add(c);
                *x = v;
                c = o1 as u64;
            }
        }
        let mut c = 0u64;
        for k in 0..8 {
            let (v, o1) = acc[k].overflowing_add(t[k]);
            let (v2, o2) = v.overflowing_add(c);
            acc[k] = v2;
            c = (o1 || o2) as u64;
        }
    }
    // the narrower quires are the low `words` words, sign-extended
    let mut out: Vec<u64> = acc[..words].to_vec();
    if n == 8 {
        out[0] &= 0xffff_ffff;
    }
    // magnitudes that do not fit the narrower quire: not comparable
    if words < 8 {
        let sign = if n == 8 { (out[0] >> 31) & 1 } else { out[words - 1] >> 63 };
        let ext = if sign == 1 { u64::MAX } else { 0 };
        if acc[words..].iter().any(|&w| w != ext) || (n == 8 && (acc[0] >> 32) != (ext >> 32)) {
            return None;
        }
    }
    Some(out)
}

fn meta_differs(ty: &Ty, base: &[(u64, u64)], ab: (u64, u64), cd: (u64, u64)) -> bool {
    let n = ty.n;
    // (F)
    {
        let mut terms: Vec<(u64, u64, bool)> = base.iter().map(|&(a, b)| (a, b, false)).collect();
        terms.push((ab.0, ab.1, false));
        terms.push((cd.0, cd.1, true));
        if let Some(want) = model_image(ty, &terms) {
            let mut q = QAny::new(ty.name);
            for &(a, b, sub) in &terms {
                q.exec(if sub { "q_sub" } else { "q_add" }, "pp", &[a, b], &[], &[]);
            }
            let (bits, _, nar) = q.observe();
            // (the all-ones-top pattern 1000...0 is the quire's NaR: a sum that lands there is not comparable)
            if !nar && bits != want {
                return true;
            }
        }
    }
    let mk = || {
        let mut q = QAny::new(ty.name);
        for &(a, b) in base {
            q.exec("q_add", "pp", &[a, b], &[], &[]);
        }
        q
    };
    let img = |q: &QAny| q.observe();
    let q0 = mk();
    let (b0, z0, n0) = img(&q0);
    if n0 {
        return false;
    }
    // (A)
    let mut q = mk();
    q.exec("q_add", "pp", &[ab.0, ab.1], &[], &[]);
    let after_ab = img(&q);
    q.exec("q_sub", "pp", &[ab.0, ab.1], &[], &[]);
    if !after_ab.2 && img(&q).0 != b0 {
        return true;
    }
    // (B)
    let mut q1 = mk();
    q1.exec("q_add", "pp", &[ab.0, ab.1], &[], &[]);
    q1.exec("q_add", "pp", &[cd.0, cd.1], &[], &[]);
    let mut q2 = mk();
    q2.exec("q_add", "pp", &[cd.0, cd.1], &[], &[]);
    q2.exec("q_add", "pp", &[ab.0, ab.1], &[], &[]);
    let (i1, i2) = (img(&q1), img(&q2));
    if !i1.2 && !i2.2 && i1.0 != i2.0 {
        return true;
    }
    // (C)
    let mut q3 = mk();
    q3.exec("q_add", "pp", &[ab.1, ab.0], &[], &[]);
    if img(&q3).0 != after_ab.0 && !after_ab.2 {
        return true;
    }
    let mut q4 = mk();
    q4.exec("q_sub", "pp", &[ab.0, ab.1], &[], &[]);
    let mut q5 = mk();
    q5.exec("q_add", "pp", &[gen::neg(n, ab.0), ab.1], &[], &[]);
    let (i4, i5) = (img(&q4), img(&q5));
    if !i4.2 && !i5.2 && i4.0 != i5.0 {
        return true;
    }
    // (D)
    let mut q6 = mk();
    q6.exec("q_neg", "m", &[], &[], &[]);
    let negimg = img(&q6);
    q6.exec("q_neg", "m", &[], &[], &[]);
    if img(&q6).0 != b0 {
        return true;
    }
    let mut q7 = mk();
    q7.exec("q_add", "pp", &[ab.0, ab.1], &[], &[]);
    q7.exec("q_neg", "m", &[], &[], &[]);
    let mut q8 = mk();
    q8.exec("q_neg", "m", &[], &[], &[]);
    q8.exec("q_sub", "pp", &[ab.0, ab.1], &[], &[]);
    let (i7, i8) = (img(&q7), img(&q8));
    if !i7.2 && !i8.2 && !negimg.2 && i7.0 != i8.0 {
        return true;
    }
    // (G) the single-posit forms: q + a = q + (a, 1), q - a = q - (a, 1)
    {
        let one = 1u64 << (n - 2);
        let mut qa = mk();
        qa.exec("q_add", "p", &[ab.0], &[], &[]);
        let mut qb = mk();
        qb.exec("q_add", "pp", &[ab.0, one], &[], &[]);
        let (ia, ib) = (img(&qa), img(&qb));
        if !ia.2 && !ib.2 && ia.0 != ib.0 {
            return true;
        }
        let mut qa = mk();
        qa.exec("q_sub", "p", &[ab.1], &[], &[]);
        let mut qb = mk();
        qb.exec("q_sub", "pp", &[ab.1, one], &[], &[]);
        let (ia, ib) = (img(&qa), img(&qb));
        if !ia.2 && !ib.2 && ia.0 != ib.0 {
            return true;
        }
    }
    // (H) clear leaves nothing behind
    {
        let mut qc = mk();
        qc.exec("q_add", "pp", &[ab.0, ab.1], &[], &[]);
        qc.exec("q_clear", "m", &[], &[], &[]);
        let ic = img(&qc);
        if ic.0.iter().any(|&w| w != 0) || !ic.1 {
            return true;
        }
    }
    // (E)
    if z0 != b0.iter().all(|&w| w == 0) {
        return true;
    }
    let mut q9 = QAny::new(ty.name);
    q9.exec("q_from_posit", "m", &[ab.0], &[], &[]);
    if ab.0 != gen::nar(n) {
        if let Some(v) = q9.exec("q_to_posit", "m", &[], &[], &[]) {
            if v[0].u() != ab.0 {
                return true;
            }
        }
    }
    false
}

pub fn screen_quire(ctx: &mut Ctx, ty: &'static Ty, log2count: u32) {
    let seed = ctx.seed.wrapping_mul(0x9FB2_1C65_1E98_DF25) ^ ((ty.n as u64) << 50);
    set_current("q_meta", ty.name, "sweep", ty.n, &[log2count as u64]);
    let (total, sel) = crate::screen::par_sweep(1u64 << log2count, 1, 0, 60, |i| {
        let (base, ab, cd) = meta_history(ty, seed, i);
        meta_differs(ty, &base, ab, cd)
    });
    ctx.sink.screened += total;
    for i in sel {
        let (base, ab, cd) = meta_history(ty, seed, i);
        *ctx.sink.per_op.entry(format!("screen-selected:{}.q_meta", ty.name)).or_insert(0) += 1;
        let st = |op: &'static str, x: (u64, u64)| Step { op, sp: "pp", x: vec![x.0, x.1], bs: vec![] };
        let b: Vec<Step> = base.iter().map(|&t| st("q_add", t)).collect();
        let with = |extra: Vec<Step>| -> Vec<Step> {
            let mut v: Vec<Step> = base.iter().map(|&t| st("q_add", t)).collect();
            v.extend(extra);
            v
        };
        let negs = |x: (u64, u64)| (gen::neg(ty.n, x.0), x.1);
        let hs: Vec<Vec<Step>> = vec![
            with(vec![st("q_add", ab), st("q_sub", cd)]),
            with(vec![st("q_add", ab), st("q_sub", ab)]),
            with(vec![st("q_add", ab), st("q_add", cd)]),
            with(vec![st("q_add", cd), st("q_add", ab)]),
            with(vec![st("q_add", (ab.1, ab.0))]),
            with(vec![st("q_sub", ab)]),
            with(vec![st("q_add", negs(ab))]),
            with(vec![Step { op: "q_neg", sp: "m", x: vec![], bs: vec![] }, Step { op: "q_neg", sp: "m", x: vec![], bs: vec![] }]),
            with(vec![st("q_add", ab), Step { op: "q_neg", sp: "m", x: vec![], bs: vec![] }]),
            with(vec![Step { op: "q_neg", sp: "m", x: vec![], bs: vec![] }, st("q_sub", ab)]),
            vec![Step { op: "q_from_posit", sp: "m", x: vec![ab.0], bs: vec![] }],
            with(vec![Step { op: "q_add", sp: "p", x: vec![ab.0], bs: vec![] }]),
            with(vec![Step { op: "q_add", sp: "pp", x: vec![ab.0, 1u64 << (ty.n - 2)], bs: vec![] }]),
            with(vec![Step { op: "q_sub", sp: "p", x: vec![ab.1], bs: vec![] }]),
            with(vec![st("q_add", ab), Step { op: "q_clear", sp: "m", x: vec![], bs: vec![] }]),
            b,
        ];
        for h in hs {
            ctx.sink.boundary();
            ctx.sink.free = false;
            run_history(ctx, ty, 0, &h, 1, false);
            ctx.sink.free = true;
        }
    }
}
