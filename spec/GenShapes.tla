----------------------------- MODULE GenShapes -----------------------------
(* T1 for the wide formats: the shape lattice of P16E1 / P32E2 is DEFINED    *)
(* here (every regime x every exponent x fraction classes x sign), TLC        *)
(* enumerates it, pairs every shape with a reduced lattice of second          *)
(* operands, and prints the four arithmetic events with the specification's   *)
(* result; the harness executes them on the real library and compares.        *)
EXTENDS PositMachine, Json, TLC
CONSTANTS KStep          \* 1: every regime of the first operand; larger: a seeded coset (quick)
VARIABLES t, k, e, fc, sg
gv == <<t, k, e, fc, sg, regs, qs>>

TN(tt) == IF tt = "p16" THEN 16 ELSE 32
TE(tt) == IF tt = "p16" THEN 1 ELSE 2
FracClasses == {"zero", "one", "ones", "msb"}

\* positive pattern with regime kk, exponent ee, fraction class (truncated to the N-1 bits available)
Compose(N, ES, kk, ee, cls) ==
  LET reglen == IF kk >= 0 THEN kk + 2 ELSE -kk + 1
      regbits == IF kk >= 0 THEN Sub(Pow2(kk + 2), <<2>>) ELSE <<1>>
      nf0 == N - 1 - reglen - ES
      nf == IF nf0 > 0 THEN nf0 ELSE 0
      f == CASE cls = "zero" -> <<>> [] cls = "one" -> (IF nf > 0 THEN <<1>> ELSE <<>>)
             [] cls = "ones" -> Sub(Pow2(nf), <<1>>) [] OTHER -> (IF nf > 0 THEN Pow2(nf - 1) ELSE <<>>)
      full == Add(Shl(Add(Shl(regbits, ES), FromInt(ee)), nf), f)
      len == reglen + ES + nf
      body == IF len > N - 1 THEN Shr(full, len - (N - 1)) ELSE Shl(full, (N - 1) - len)
      b1 == Low(body, N - 1)
  IN IF b1 = <<>> THEN <<1>> ELSE b1
Signed(N, p, s) == IF s = 1 THEN Neg(N, p) ELSE p

Init == /\ t \in {"p16", "p32"}
        /\ k \in {x \in -(TN(t) - 2) .. (TN(t) - 2) : x % KStep = 0}
        /\ e = -1 /\ fc = "zero" /\ sg = 0
        /\ regs = RegsInit /\ qs = QsInit
\* (fan-out through Next so that all workers share the evaluation)
Next == /\ e = -1
        /\ e' \in 0 .. (2 ^ TE(t) - 1) /\ fc' \in FracClasses /\ sg' \in {0, 1}
        /\ UNCHANGED <<t, k, regs, qs>>
Spec == Init /\ [][Next]_gv

\* second operands: specials and a reduced lattice around the unit regimes and at both ends
BSet(N, ES) ==
  {<<>>, NaR(N), MinPos, MaxPos(N), Neg(N, MinPos), Neg(N, MaxPos(N))} \cup
  { Signed(N, Compose(N, ES, kk, ee, cc), ss) :
      kk \in {-(N - 2), -(N - 3), -3, -2, -1, 0, 1, 2, N - 4, N - 3}, ee \in {0, 2 ^ ES - 1},
      cc \in {"zero", "ones", "one"}, ss \in {0, 1} }
Ops == <<"add", "sub", "mul", "div">>
Ev(op, tt, x, y) == [op |-> op, t |-> tt, sp |-> "o", a |-> x, b |-> y, x_r |-> Fn(op, "o", TN(tt), TE(tt), <<x, y>>)]
A == Signed(TN(t), Compose(TN(t), TE(t), k, e, fc), sg)
Events == LET bs == BSet(TN(t), TE(t)) IN
  { Ev(Ops[i], t, A, y) : i \in 1 .. 4, y \in bs } \cup { Ev(Ops[i], t, y, A) : i \in {2, 4}, y \in bs }
\* (sets print as JSON arrays)
Emit == e = -1 \/ PrintT("GEN" \o ToJson(Events))
=======================================================================
