SPECIFICATION Spec
CONSTANTS NMin = 3
          NMax = 6
INVARIANT RoundIsCorrect RoundMonotone StickyMeaning RoundTrip NeverZeroOrNaR QuotOk SqrtOk
CHECK_DEADLOCK FALSE
