SPECIFICATION Spec
CONSTANTS Len_ = 3
INVARIANT Emit
CHECK_DEADLOCK FALSE
