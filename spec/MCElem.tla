------------------------------ MODULE MCElem ------------------------------
(* Self-checks of Elementary.tla (no implementation involved):              *)
(*  - the two literals: pi against Machin's formula, ln 2 against            *)
(*    2 atanh(1/3), both re-derived here in ball arithmetic;                 *)
(*  - identities on a grid of dyadic points: sin^2 + cos^2 = 1,              *)
(*    e^a e^-a = 1, ln(e^a) = a, 2^x via exp2 vs exp(x ln 2),                *)
(*    sinh/cosh against exp, sin(pi x) against sin(x pi) in radians;         *)
(*  - the verdict logic on a whole format: for every P8E0 pattern r the      *)
(*    exact value of r is accepted for r and rejected for its neighbours.    *)
EXTENDS ElemOps, TLC
VARIABLES i, j
mv == <<i, j>>
Init == i \in 0 .. 40 /\ j = -1
Next == j = -1 /\ j' \in 0 .. 63 /\ UNCHANGED i
Spec == Init /\ [][Next]_mv

PP == 160
\* atan(1/d) by its alternating series, in ball arithmetic
RECURSIVE AtanInvLoop(_, _, _, _, _)
AtanInvLoop(d2, k, pw, sum, sgn) ==
  IF BTiny(pw, PP + 40) THEN Ball(sum.c, RUp(DyAdd(sum.r, BAbsUpper(pw))))
  ELSE LET p2 == BDivInt(pw, d2, PP + 40)
           t == BDivInt(p2, k, PP + 40)
       IN AtanInvLoop(d2, k + 2, p2, IF sgn THEN BSub(sum, t, PP + 40) ELSE BAdd(sum, t, PP + 40), ~sgn)
AtanInv(d) == LET x == BDivInt(BExact(DyOne), d, PP + 40) IN AtanInvLoop(d * d, 3, x, x, TRUE)
Contains(a, b) == DyCmp(BLower(a), BUpper(b)) <= 0 /\ DyCmp(BLower(b), BUpper(a)) <= 0   \* the balls meet
Narrow(a, bits) == DyIsZero(a.r) \/ DyScale(a.r) < DyScale(a.c) - bits
Constants ==
  /\ LET m == BSub(BShift(AtanInv(5), 4), BShift(AtanInv(239), 2), PP + 40) IN Contains(m, PiBall) /\ Narrow(m, PP)
  /\ LET z == BDivInt(BExact(DyOne), 3, PP + 40) l == BShift(Atanh(z, PP + 40), 1) IN Contains(l, Ln2Ball) /\ Narrow(l, PP)
  /\ Contains(ExpBall(Ln2Ball, PP), BExact(DyInt(2)))

\* grid point: (i - 20) + j/64, scaled by 2^-(i % 5)
X == DyShift(DyAdd(DyInt(i - 20), Dy(FALSE, FromInt(j), -6)), -(i % 5))
One == BExact(DyOne)
Identities ==
  LET sc == SinCosRad(X, PP)
      sp == SinCosPi(X, PP)
      e1 == ExpDy(X, PP)  e2 == ExpDy(DyNeg(X), PP)
  IN /\ Contains(BAdd(BMul(sc[1], sc[1], PP), BMul(sc[2], sc[2], PP), PP), One)
     /\ Contains(BAdd(BMul(sp[1], sp[1], PP), BMul(sp[2], sp[2], PP), PP), One)
     /\ Contains(BMul(e1, e2, PP), One) /\ Narrow(e1, PP - 20)
     /\ (DyIsZero(X) \/ Contains(LnDy(TruncP(e1.c, 200).v, PP), Ball(X, DyPow2(DyScale(X) - 100))))
     /\ Contains(BMul(Exp2Dy(X, PP), Exp2Dy(DyNeg(X), PP), PP), One)
     /\ Contains(BShift(BSub(e1, e2, PP), -1), SinhDy(X, PP))
     /\ Contains(BShift(BAdd(e1, e2, PP), -1), CoshDy(X, PP))
     \* sin(pi x) computed in units of pi  vs  radians at the point pi*x (a ball argument)
     /\ LET a == BMulDy(PiBall, X, PP + 20) r == SinCosRad(TruncP(a.c, PP).v, PP)
        IN Contains(Ball(r[1].c, DyAdd(r[1].r, DyAdd(a.r, DyPow2(DyScale(a.c) - PP + 2)))), sp[1])
     /\ (DyCmp(X, DyZero) <= 0 \/ Contains(BMulDy(Ln2Ball, DyZero, PP), BExact(DyZero)))
     /\ (DyCmp(X, DyZero) <= 0 \/ LET l2 == Log2Dy(X, PP) l == LnDy(X, PP) IN Contains(BMul(l2, Ln2Ball, PP), l))

\* verdict logic on all of P8E0: r = i * 64 + j restricted to 0..255
R == FromInt((i % 4) * 64 + j)
VerdictLogic ==
  LET r == R IN
  (i < 4 /\ ~IsNaR(8, r)) =>
    LET v == Val(8, 0, r) IN
    /\ Exact(8, 0, r, 0, v) = "ok"
    /\ (r # MaxPos(8) => Exact(8, 0, PSucc(8, r), 0, v) = "wrong" \/ IsNaR(8, PSucc(8, r)))
    /\ (r # Neg(8, MaxPos(8)) /\ ~IsNaR(8, PPred(8, r)) => Exact(8, 0, PPred(8, r), 0, v) = "wrong")
    /\ Exact(8, 0, PStep(8, r, 2), 2, v) = "ok" /\ Exact(8, 0, PStep(8, r, -3), 3, v) = "ok"
    /\ (PStep(8, r, 3) # PStep(8, r, 2) => Exact(8, 0, PStep(8, r, 3), 2, v) = "wrong")
    \* a value strictly inside the cell (r's value nudged by a quarter of the gap) is still accepted
    /\ (r # <<>> /\ r # MaxPos(8) /\ r # Neg(8, MaxPos(8)) =>
          LET hi == Val(9, 0, PSucc(9, Shl(r, 1))) mid == DyShift(DyAdd(v, hi), -1)
          IN Verdict(8, 0, r, 0, FALSE, LAMBDA b : ExactC(mid, b)) = "ok")

All == j = -1 \/ (Identities /\ VerdictLogic)
ConstOk == j # -1 \/ i # 0 \/ Constants
=======================================================================
