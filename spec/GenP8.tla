------------------------------ MODULE GenP8 ------------------------------
(* T1: TLC enumerates every P8E0 operand pair and prints, per first        *)
(* operand, the events for all 256 second operands and the four operators  *)
(* with the specification's result; the harness executes them on the real  *)
(* library (operator-trait spelling) and compares.                         *)
EXTENDS PositMachine, Json, TLC
VARIABLES a
Init == a \in 0 .. 255 /\ regs = RegsInit /\ qs = QsInit
Next == UNCHANGED <<a, regs, qs>>
Spec == Init /\ [][Next]_<<a, regs, qs>>

Ops == <<"add", "sub", "mul", "div">>
Ev(op, x, y) == [op |-> op, t |-> "p8", sp |-> "o", a |-> x, b |-> y, x_r |-> Fn(op, "o", 8, 0, <<x, y>>)]
Events == [i \in 1 .. 1024 |->
            Ev(Ops[((i - 1) % 4) + 1], FromInt(a), FromInt((i - 1) \div 4))]
Emit == PrintT("GEN" \o ToJson(Events))
=======================================================================
