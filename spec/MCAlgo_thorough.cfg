SPECIFICATION Spec
CONSTANTS NMin = 3
          NMax = 10
          TailNMax = 32
          LatN = {9, 11, 12, 14, 16, 18, 20, 21, 24, 27, 28, 29, 30, 31, 32}
INVARIANT TailOk PairsOk ShiftOk LatOk DTailOk ATailOk
CHECK_DEADLOCK FALSE
