SPECIFICATION Spec
CONSTANTS NMin = 3
          NMax = 8
          TailNMax = 32
          LatN = {9, 12, 16, 21, 27, 31, 32}
INVARIANT TailOk PairsOk ShiftOk LatOk DTailOk ATailOk
CHECK_DEADLOCK FALSE
