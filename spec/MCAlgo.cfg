SPECIFICATION Spec
CONSTANTS NMin = 3
          NMax = 8
          TailNMax = 32
INVARIANT TailOk PairsOk ShiftOk
CHECK_DEADLOCK FALSE
