SPECIFICATION Spec
CONSTANTS KStep = 1
INVARIANT Emit
CHECK_DEADLOCK FALSE
