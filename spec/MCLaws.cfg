SPECIFICATION Spec
CONSTANTS NMin = 3
          NMax = 7
INVARIANT Laws Laws1
CHECK_DEADLOCK FALSE
