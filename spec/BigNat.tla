---------------------------- MODULE BigNat ----------------------------
(* Arbitrary-precision naturals for TLC (whose integers are 32-bit).      *)
(* A number is a little-endian sequence of limbs in base 2^15, canonical  *)
(* (no high zero limb); zero is <<>>.  Every operator is schoolbook and   *)
(* defined in plain TLA+.  For speed, the checks load a Java override of  *)
(* exactly these operators (spec/java/BigNatOverrides.java, BigInteger);  *)
(* MCBigNat and the `selftest` run both and require identical results.    *)
EXTENDS Integers, Sequences

B  == 32768
LB == 15

RECURSIVE Strip(_)
Strip(s) == IF s = <<>> THEN s
            ELSE IF s[Len(s)] = 0 THEN Strip(SubSeq(s, 1, Len(s) - 1)) ELSE s

\* n is a TLC int, 0 <= n < 2^31
FromInt(n) == IF n = 0 THEN <<>>
              ELSE IF n < B THEN <<n>>
              ELSE IF n < B * B THEN <<n % B, n \div B>>
              ELSE <<n % B, (n \div B) % B, n \div (B * B)>>

\* a < 2^30 required
ToInt(a) == IF a = <<>> THEN 0 ELSE IF Len(a) = 1 THEN a[1] ELSE a[1] + B * a[2]

Limb(s, i) == IF i <= Len(s) THEN s[i] ELSE 0

RECURSIVE AddC(_, _, _, _)
AddC(a, b, i, c) ==
  IF i > Len(a) /\ i > Len(b) THEN (IF c = 0 THEN <<>> ELSE <<c>>)
  ELSE LET t == Limb(a, i) + Limb(b, i) + c IN <<t % B>> \o AddC(a, b, i + 1, t \div B)
Add(a, b) == AddC(a, b, 1, 0)

\* a >= b required
RECURSIVE SubC(_, _, _, _)
SubC(a, b, i, c) ==
  IF i > Len(a) THEN <<>>
  ELSE LET t == Limb(a, i) - Limb(b, i) - c IN
       IF t < 0 THEN <<t + B>> \o SubC(a, b, i + 1, 1) ELSE <<t>> \o SubC(a, b, i + 1, 0)
Sub(a, b) == Strip(SubC(a, b, 1, 0))

RECURSIVE CmpFrom(_, _, _)
CmpFrom(a, b, i) == IF i = 0 THEN 0
                    ELSE IF a[i] < b[i] THEN -1 ELSE IF a[i] > b[i] THEN 1 ELSE CmpFrom(a, b, i - 1)
Cmp(a, b) == IF Len(a) < Len(b) THEN -1 ELSE IF Len(a) > Len(b) THEN 1 ELSE CmpFrom(a, b, Len(a))

RECURSIVE MulSmallC(_, _, _, _)
MulSmallC(a, d, i, c) ==
  IF i > Len(a) THEN (IF c = 0 THEN <<>> ELSE <<c>>)
  ELSE LET t == a[i] * d + c IN <<t % B>> \o MulSmallC(a, d, i + 1, t \div B)
\* 0 <= d <= 2^15
MulSmall(a, d) == IF d = 0 THEN <<>> ELSE MulSmallC(a, d, 1, 0)

Zeros(n) == [i \in 1..n |-> 0]
ShlLimbs(a, n) == IF a = <<>> THEN a ELSE Zeros(n) \o a

RECURSIVE MulAcc(_, _, _)
MulAcc(a, b, i) == IF i > Len(b) THEN <<>>
                   ELSE Add(ShlLimbs(MulSmall(a, b[i]), i - 1), MulAcc(a, b, i + 1))
Mul(a, b) == MulAcc(a, b, 1)

Shl(a, n) == ShlLimbs(MulSmall(a, 2 ^ (n % LB)), n \div LB)

RECURSIVE DivSmallC(_, _, _, _)
DivSmallC(a, d, i, r) ==
  IF i = 0 THEN <<>>
  ELSE LET t == r * B + a[i] IN DivSmallC(a, d, i - 1, t % d) \o <<t \div d>>
\* 1 <= d <= 2^15
DivSmall(a, d) == Strip(DivSmallC(a, d, Len(a), 0))

DropLimbs(a, n) == IF n >= Len(a) THEN <<>> ELSE SubSeq(a, n + 1, Len(a))
Shr(a, n) == DivSmall(DropLimbs(a, n \div LB), 2 ^ (n % LB))

RECURSIVE IntBitLen(_)
IntBitLen(n) == IF n = 0 THEN 0 ELSE 1 + IntBitLen(n \div 2)
BitLen(a) == IF a = <<>> THEN 0 ELSE LB * (Len(a) - 1) + IntBitLen(a[Len(a)])

Bit(a, i) == LET q == i \div LB + 1 IN IF q > Len(a) THEN 0 ELSE (a[q] \div (2 ^ (i % LB))) % 2

RECURSIVE AnyNonZero(_, _)
AnyNonZero(a, n) == IF n = 0 THEN FALSE ELSE IF a[n] # 0 THEN TRUE ELSE AnyNonZero(a, n - 1)
\* some bit among bits 0..n-1 of a is set
LowNonZero(a, n) ==
  LET q == n \div LB  r == n % LB IN
  \/ AnyNonZero(a, IF q > Len(a) THEN Len(a) ELSE q)
  \/ (q < Len(a) /\ a[q + 1] % (2 ^ r) # 0)

Pow2(n) == Shl(<<1>>, n)

\* a mod 2^n
Low(a, n) == Sub(a, Shl(Shr(a, n), n))

\* Long division, one bit at a time: <<quotient, remainder>>, b # 0
RECURSIVE DivModC(_, _, _, _, _)
DivModC(a, b, i, q, r) ==
  IF i < 0 THEN <<q, r>>
  ELSE LET r2 == Add(Shl(r, 1), IF Bit(a, i) = 1 THEN <<1>> ELSE <<>>)
           q2 == Shl(q, 1)
       IN IF Cmp(r2, b) >= 0 THEN DivModC(a, b, i - 1, Add(q2, <<1>>), Sub(r2, b))
          ELSE DivModC(a, b, i - 1, q2, r2)
DivMod(a, b) == DivModC(a, b, BitLen(a) - 1, <<>>, <<>>)

\* floor(sqrt(a)), bit by bit from the top
RECURSIVE ISqrtC(_, _, _)
ISqrtC(a, i, x) ==
  IF i < 0 THEN x
  ELSE LET y == Add(x, Pow2(i)) IN
       IF Cmp(Mul(y, y), a) <= 0 THEN ISqrtC(a, i - 1, y) ELSE ISqrtC(a, i - 1, x)
ISqrt(a) == ISqrtC(a, (BitLen(a) + 1) \div 2, <<>>)
=======================================================================
