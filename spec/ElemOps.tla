------------------------------ MODULE ElemOps ------------------------------
(* The elementary functions of the library judged against the enclosures of *)
(* Elementary.tla.  C11: P16E1 / P8E0 functions must be correctly rounded    *)
(* (k = 0).  C15: P32E2 functions must be within k encodings of the          *)
(* correctly rounded result, inside their documented domain.                 *)
EXTENDS Elementary

\* comparators: C(b) in {1 (y > b), -1 (y < b), 2 (y = b), 0 (unknown)}
FlipC(c) == IF c = 1 THEN -1 ELSE IF c = -1 THEN 1 ELSE c
CmpBall(Y, b) == BCmp(Y, b)
ExactC(v, b) == LET c == DyCmp(v, b) IN IF c = 0 THEN 2 ELSE c

NaRRule(N, inNaR, r) == IF inNaR THEN (IF IsNaR(N, r) THEN "ok" ELSE "wrong") ELSE "go"

Half == DyPow2(-1)
Quarter == DyPow2(-2)
MHalf == Dy(TRUE, <<1>>, -1)
PiHalfBall == BShift(PiBall, -1)

\* forward-evaluated function with enclosure Y (a ball); yzero known exactly
Fwd(N, ES, r, k, yzero, Y) ==
  IF IsNaR(N, r) THEN "wrong" ELSE Verdict(N, ES, r, k, yzero, LAMBDA b : BCmp(Y, b))
Exact(N, ES, r, k, v) ==
  IF IsNaR(N, r) THEN "wrong" ELSE Verdict(N, ES, r, k, DyIsZero(v), LAMBDA b : ExactC(v, b))

\* ---- inverse trigonometric functions through their monotone inverses
\* y = asin(x)/pi in [-1/2, 1/2]
AsinPiC(x, b, P) ==
  IF DyCmp(b, Half) >= 0 THEN -1 ELSE IF DyCmp(b, MHalf) <= 0 THEN 1
  ELSE FlipC(BCmp(SinCosPi(b, P)[1], x))
\* y = acos(x)/pi in [0, 1], decreasing
AcosPiC(x, b, P) ==
  IF DyCmp(b, DyZero) <= 0 THEN 1 ELSE IF DyCmp(b, DyOne) >= 0 THEN -1
  ELSE BCmp(SinCosPi(b, P)[2], x)
\* y = atan(x)/pi in (-1/2, 1/2): y > b  <=>  x cos(pi b) - sin(pi b) > 0
AtanPiC(x, b, P) ==
  IF DyCmp(b, Half) >= 0 THEN -1 ELSE IF DyCmp(b, MHalf) <= 0 THEN 1
  ELSE LET sc == SinCosPi(b, P) IN BCmp(BSub(BMulDy(sc[2], x, P), sc[1], P), DyZero)
\* radians: b against +-pi/2 (never equal: pi/2 is irrational)
BeyondHalfPi(b) == LET c == BCmp(PiHalfBall, DyAbs(b)) IN c = -1      \* |b| > pi/2
AsinC(x, b, P) ==
  IF BeyondHalfPi(b) THEN (IF b.neg THEN 1 ELSE -1)
  ELSE FlipC(BCmp(SinCosRad(b, P)[1], x))
AcosC(x, b, P) ==
  IF DyCmp(b, DyZero) <= 0 THEN 1 ELSE IF BCmp(PiBall, b) = -1 THEN -1
  ELSE BCmp(SinCosRad(b, P)[2], x)
AtanC(x, b, P) ==
  IF BeyondHalfPi(b) THEN (IF b.neg THEN 1 ELSE -1)
  ELSE LET sc == SinCosRad(b, P) IN BCmp(BSub(BMulDy(sc[2], x, P), sc[1], P), DyZero)

\* y = atan2(yy, xx) against a boundary b
Atan2C(yy, xx, b, P) ==
  IF BCmp(PiBall, DyAbs(b)) = -1 THEN (IF b.neg THEN 1 ELSE -1)             \* |b| > pi
  ELSE LET sc == SinCosRad(b, P)
           cross == BSub(BMulDy(sc[2], yy, P), BMulDy(sc[1], xx, P), P)      \* y cos b - x sin b
           dot == BAdd(BMulDy(sc[2], xx, P), BMulDy(sc[1], yy, P), P)        \* x cos b + y sin b
       IN IF BCmp(dot, DyZero) = -1 THEN 3
          ELSE IF BCmp(dot, DyZero) # 1 THEN 0
          ELSE BCmp(cross, DyZero)

Inv(N, ES, r, k, C(_)) == IF IsNaR(N, r) THEN "wrong" ELSE Verdict(N, ES, r, k, FALSE, C)

AbsLe1(x) == DyCmpMag(x, DyOne) <= 0
IsInt(x) == DyIsZero(x) \/ x.e >= 0 \/ ~LowNonZero(x.m, -x.e)
\* x - 1/2 is an integer
IsHalfInt(x) == ~DyIsZero(x) /\ IsInt(DySub(x, Half))

\* tangent from <<sin, cos>>
TanV(N, ES, r, k, sc, P) ==
  IF IsNaR(N, r) THEN "wrong"
  ELSE IF DyIsZero(BAbsLower(sc[2])) THEN "undecided"
  ELSE Fwd(N, ES, r, k, DyIsZero(sc[1].c) /\ DyIsZero(sc[1].r), BDiv(sc[1], sc[2], P))

-----------------------------------------------------------------------------
(* C11: P16E1 (ten functions) and P8E0 (exp, ln): correctly rounded *)
C11Ops == {"exp", "exp2", "ln", "log2", "sin_pi", "cos_pi", "tan_pi", "asin_pi", "acos_pi", "atan_pi"}
V11(op, N, ES, a, r, P) ==
  LET nar == IsNaR(N, a)
      x == IF nar THEN DyZero ELSE Val(N, ES, a)
      pos == ~nar /\ ~DyIsZero(x) /\ ~x.neg
  IN
  CASE op = "exp"  -> IF nar THEN NaRRule(N, TRUE, r) ELSE Fwd(N, ES, r, 0, FALSE, ExpDy(x, P))
    [] op = "exp2" -> IF nar THEN NaRRule(N, TRUE, r) ELSE Fwd(N, ES, r, 0, FALSE, Exp2Dy(x, P))
    [] op = "ln"   -> IF ~pos THEN NaRRule(N, TRUE, r)
                      ELSE IF DyCmp(x, DyOne) = 0 THEN Exact(N, ES, r, 0, DyZero)
                      ELSE Fwd(N, ES, r, 0, FALSE, LnDy(x, P))
    [] op = "log2" -> IF ~pos THEN NaRRule(N, TRUE, r)
                      ELSE IF DyCmp(x, DyOne) = 0 THEN Exact(N, ES, r, 0, DyZero)
                      ELSE Fwd(N, ES, r, 0, FALSE, Log2Dy(x, P))
    [] op = "sin_pi" -> IF nar THEN NaRRule(N, TRUE, r)
                        ELSE LET s == SinCosPi(x, P)[1] IN Fwd(N, ES, r, 0, DyIsZero(s.c) /\ DyIsZero(s.r), s)
    [] op = "cos_pi" -> IF nar THEN NaRRule(N, TRUE, r)
                        ELSE LET c == SinCosPi(x, P)[2] IN Fwd(N, ES, r, 0, DyIsZero(c.c) /\ DyIsZero(c.r), c)
    [] op = "tan_pi" -> IF nar \/ IsHalfInt(x) THEN NaRRule(N, TRUE, r)
                        ELSE TanV(N, ES, r, 0, SinCosPi(x, P), P)
    [] op = "asin_pi" -> IF nar \/ ~AbsLe1(x) THEN NaRRule(N, TRUE, r)
                         ELSE IF DyIsZero(x) THEN Exact(N, ES, r, 0, DyZero)
                         ELSE IF DyCmpMag(x, DyOne) = 0 THEN Exact(N, ES, r, 0, Dy(x.neg, <<1>>, -1))
                         ELSE Inv(N, ES, r, 0, LAMBDA b : AsinPiC(x, b, P))
    [] op = "acos_pi" -> IF nar \/ ~AbsLe1(x) THEN NaRRule(N, TRUE, r)
                         ELSE IF DyIsZero(x) THEN Exact(N, ES, r, 0, Half)
                         ELSE IF DyCmpMag(x, DyOne) = 0 THEN Exact(N, ES, r, 0, IF x.neg THEN DyOne ELSE DyZero)
                         ELSE Inv(N, ES, r, 0, LAMBDA b : AcosPiC(x, b, P))
    [] op = "atan_pi" -> IF nar THEN NaRRule(N, TRUE, r)
                         ELSE IF DyIsZero(x) THEN Exact(N, ES, r, 0, DyZero)
                         ELSE IF DyCmpMag(x, DyOne) = 0 THEN Exact(N, ES, r, 0, Dy(x.neg, <<1>>, -2))
                         ELSE Inv(N, ES, r, 0, LAMBDA b : AtanPiC(x, b, P))

-----------------------------------------------------------------------------
(* C15: P32E2, k-ulp bounds inside the documented domains *)
C15Ops == {"sin", "cos", "tan", "asin", "acos", "atan", "ln", "log2", "exp", "exp2", "sinh", "cosh",
           "cbrt", "hypot", "powf", "atan2"}
Bound(op) == CASE op \in {"exp", "exp2"} -> 1
               [] op \in {"sin", "cos", "acos", "ln", "cosh"} -> 2
               [] op \in {"tan", "asin", "atan", "atan2", "log2"} -> 3
               [] op \in {"cbrt", "hypot", "sinh"} -> 4
               [] op = "powf" -> 5
\* |x| <= n (n a small int)
AbsLeInt(x, n) == DyCmpMag(x, DyInt(n)) <= 0
TrigDomain(x) == DyCmpMag(x, DyInt(393216)) < 0
\* is the (unary) argument inside the function's documented domain?
InDomain(op, x) ==
  CASE op \in {"sin", "cos", "tan"} -> TrigDomain(x)
    [] op = "exp" -> AbsLeInt(x, 104)
    [] op = "exp2" -> DyCmp(x, DyInt(-150)) >= 0 /\ DyCmp(x, DyInt(128)) < 0
    [] op \in {"sinh", "cosh"} -> AbsLeInt(x, 88)
    [] OTHER -> TRUE

\* judged against an explicit bound k (V15 uses the stated one; the diagnosis of a failure re-judges with k + 1, k + 2, ...
\* to report by how much the bound is exceeded)
V15K(op, N, ES, a, b2, r, P, k) ==
  LET nar == IsNaR(N, a)
      x == IF nar THEN DyZero ELSE Val(N, ES, a)
      pos == ~nar /\ ~DyIsZero(x) /\ ~x.neg
  IN
  IF op \in {"hypot", "powf", "atan2"} THEN
     LET nar2 == IsNaR(N, b2)
         z == IF nar2 THEN DyZero ELSE Val(N, ES, b2)
     IN IF nar \/ nar2 THEN NaRRule(N, TRUE, r)
        ELSE IF op = "hypot" THEN
             (IF IsNaR(N, r) THEN "wrong"
              ELSE LET s2 == DyAdd(DyMul(x, x), DyMul(z, z)) IN
                   Verdict(N, ES, r, k, DyIsZero(s2),
                           LAMBDA b : IF b.neg /\ ~DyIsZero(b) THEN 1 ELSE ExactC(s2, DyMul(b, b))))
        ELSE IF op = "powf" THEN
             \* judged for x > 0 only (x^y is then exp(y ln x)); other cases are conventions
             (IF ~pos THEN "ok"
              ELSE IF DyIsZero(z) \/ DyCmp(x, DyOne) = 0 THEN Exact(N, ES, r, k, DyOne)
              ELSE LET t == BMulDy(LnDy(x, P + 16), z, P + 16) IN
                   IF DyScale(BAbsUpper(t)) >= 9 THEN "undecided"      \* |y ln x| >= 512: saturated either way
                   ELSE LET kk == DyNearInt(DyMul(t.c, Dy(FALSE, FromInt(774541003), -29)))
                            u == BSub(t, BMulDy(Ln2Ball, DyInt(kk), P + 16), P + 16)
                        IN Fwd(N, ES, r, k, FALSE, BShift(ExpBall(u, P), kk)))
        ELSE
             \* atan2(y = a, x = b2): the angle theta in (-pi, pi] of the point (x, y).  With rho > 0,
             \* sin(theta - b) = (y cos b - x sin b)/rho and cos(theta - b) = (x cos b + y sin b)/rho: while the
             \* boundary b is within a quarter turn of theta the first decides theta <> b; a boundary that is
             \* not (second <= 0) means the result is nowhere near.  (0, 0) is a convention: not judged.
             (IF DyIsZero(x) /\ DyIsZero(z) THEN "ok"
              ELSE IF DyIsZero(x) /\ ~z.neg THEN Exact(N, ES, r, k, DyZero)
              ELSE IF IsNaR(N, r) THEN "wrong"
              ELSE Verdict(N, ES, r, k, FALSE, LAMBDA b : Atan2C(x, z, b, P)))
  ELSE IF nar THEN NaRRule(N, TRUE, r)
  ELSE IF ~InDomain(op, x) THEN "ok"
  ELSE
  CASE op = "sin" -> LET s == SinCosRad(x, P)[1] IN Fwd(N, ES, r, k, DyIsZero(x), s)
    [] op = "cos" -> Fwd(N, ES, r, k, FALSE, SinCosRad(x, P)[2])
    [] op = "tan" -> IF DyIsZero(x) THEN Exact(N, ES, r, k, DyZero) ELSE TanV(N, ES, r, k, SinCosRad(x, P), P)
    [] op = "exp" -> Fwd(N, ES, r, k, FALSE, ExpDy(x, P))
    [] op = "exp2" -> Fwd(N, ES, r, k, FALSE, Exp2Dy(x, P))
    [] op = "sinh" -> Fwd(N, ES, r, k, DyIsZero(x), SinhDy(x, P))
    [] op = "cosh" -> Fwd(N, ES, r, k, FALSE, CoshDy(x, P))
    [] op = "ln" -> IF ~pos THEN NaRRule(N, TRUE, r)
                    ELSE IF DyCmp(x, DyOne) = 0 THEN Exact(N, ES, r, k, DyZero)
                    ELSE Fwd(N, ES, r, k, FALSE, LnDy(x, P))
    [] op = "log2" -> IF ~pos THEN NaRRule(N, TRUE, r)
                      ELSE IF DyCmp(x, DyOne) = 0 THEN Exact(N, ES, r, k, DyZero)
                      ELSE Fwd(N, ES, r, k, FALSE, Log2Dy(x, P))
    [] op = "asin" -> IF ~AbsLe1(x) THEN NaRRule(N, TRUE, r)
                      ELSE IF DyIsZero(x) THEN Exact(N, ES, r, k, DyZero)
                      ELSE Inv(N, ES, r, k, LAMBDA b : AsinC(x, b, P))
    [] op = "acos" -> IF ~AbsLe1(x) THEN NaRRule(N, TRUE, r)
                      ELSE IF DyCmp(x, DyOne) = 0 THEN Exact(N, ES, r, k, DyZero)
                      ELSE Inv(N, ES, r, k, LAMBDA b : AcosC(x, b, P))
    [] op = "atan" -> IF DyIsZero(x) THEN Exact(N, ES, r, k, DyZero)
                      ELSE Inv(N, ES, r, k, LAMBDA b : AtanC(x, b, P))
    [] op = "cbrt" -> IF IsNaR(N, r) THEN "wrong"
                      ELSE Verdict(N, ES, r, k, DyIsZero(x), LAMBDA b : ExactC(x, DyMul(b, DyMul(b, b))))

V15(op, N, ES, a, b2, r, P) == V15K(op, N, ES, a, b2, r, P, Bound(op))

\* KF-5 (known finding): P32E2::powf(x, y) for x > 0 is computed as exp(ln(x) * y) with ln(x) and the product each rounded
\* to a posit.  A result is CONSISTENT WITH THAT COMPOSITION if, for some posit l within 3 encodings of the correctly
\* rounded ln(x) (ln's own bound is 2), it is within 3 encodings of exp(round(l * y)) (exp's own bound is 1).  Used only to
\* tell the known defect -- the error of the composition, which is unbounded in ulps as x -> 1 with |y| large because the
\* tiny ln(x) carries few fraction bits -- from any other failure of powf.
PowfComposedOk(N, ES, a, b2, r, P) ==
  LET x == Val(N, ES, a)
      lb == LnDy(x, P + 16)
      p0 == Round(N, ES, lb.c)
      OkVia(l) ==
        LET ex == DyMul(Val(N, ES, l), Val(N, ES, b2)) IN
        IF l = <<>> \/ IsNaR(N, l) \/ DyIsZero(ex) THEN FALSE
        ELSE LET tv == Val(N, ES, Round(N, ES, ex)) IN
             IF DyScale(tv) >= 9 THEN TRUE
             ELSE LET kk == DyNearInt(DyMul(tv, Dy(FALSE, FromInt(774541003), -29)))
                      u == BSub(BExact(tv), BMulDy(Ln2Ball, DyInt(kk), P + 16), P + 16)
                  IN Fwd(N, ES, r, 3, FALSE, BShift(ExpBall(u, P), kk)) # "wrong"
  IN ~IsNaR(N, r) /\ \E j \in -3 .. 3 : OkVia(PStep(N, p0, j))

-----------------------------------------------------------------------------
(* The mathematical constants (MathConsts / FloatConst): each must be the correct rounding of *)
(* the constant it names.  Not one of the listed properties -- specified because the API has   *)
(* them; decided with the same enclosures.                                                     *)
ConstBall(name, P) ==
  CASE name = "PI" -> PiBall
    [] name = "FRAC_PI_2" -> BShift(PiBall, -1)
    [] name = "FRAC_PI_4" -> BShift(PiBall, -2)
    [] name = "FRAC_PI_8" -> BShift(PiBall, -3)
    [] name = "FRAC_PI_3" -> BDivInt(PiBall, 3, P)
    [] name = "FRAC_PI_6" -> BDivInt(PiBall, 6, P)
    [] name = "FRAC_1_PI" -> BDiv(BExact(DyOne), PiBall, P)
    [] name = "FRAC_2_PI" -> BDiv(BExact(DyInt(2)), PiBall, P)
    [] name = "LN_2" -> Ln2Ball
    [] name = "LN_10" -> LnDy(DyInt(10), P)
    [] name = "LOG2_E" -> BDiv(BExact(DyOne), Ln2Ball, P)
    [] name = "LOG10_E" -> BDiv(BExact(DyOne), LnDy(DyInt(10), P), P)
    [] name = "LOG2_10" -> Log2Dy(DyInt(10), P)
    [] name = "LOG10_2" -> BDiv(Ln2Ball, LnDy(DyInt(10), P), P)
    [] name = "E" -> ExpDy(DyOne, P)
ConstNames == {"PI", "FRAC_PI_2", "FRAC_PI_4", "FRAC_PI_8", "FRAC_PI_3", "FRAC_PI_6", "FRAC_1_PI", "FRAC_2_PI",
               "LN_2", "LN_10", "LOG2_E", "LOG10_E", "LOG2_10", "LOG10_2", "E"}
\* sqrt(2), 1/sqrt(2), 2/sqrt(pi): algebraic comparisons with the cell boundaries b (all positive)
ConstVerdict(name, N, ES, r, P) ==
  IF IsNaR(N, r) THEN "wrong"
  ELSE IF name \in ConstNames THEN
       LET Y == ConstBall(name, P) IN Verdict(N, ES, r, 0, FALSE, LAMBDA b : BCmp(Y, b))
  ELSE IF name = "SQRT_2" THEN
       Verdict(N, ES, r, 0, FALSE, LAMBDA b : IF b.neg THEN 1 ELSE ExactC(DyInt(2), DyMul(b, b)))
  ELSE IF name = "FRAC_1_SQRT_2" THEN
       Verdict(N, ES, r, 0, FALSE, LAMBDA b : IF b.neg THEN 1 ELSE ExactC(DyPow2(-1), DyMul(b, b)))
  ELSE IF name = "FRAC_2_SQRT_PI" THEN
       \* y = 2/sqrt(pi):  y > b  <=>  4 > pi b^2
       Verdict(N, ES, r, 0, FALSE, LAMBDA b : IF b.neg \/ DyIsZero(b) THEN 1 ELSE BCmp(BNeg(BMulDy(PiBall, DyMul(b, b), P)), DyInt(-4)))
  ELSE "ok"
=======================================================================
