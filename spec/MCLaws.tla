------------------------------ MODULE MCLaws ------------------------------
(* Algebraic laws that make PositOps the right specification, checked on   *)
(* every operand pair of every toy format (and triples built from a pair). *)
EXTENDS Quire, TLC
CONSTANTS NMin, NMax
VARIABLES N, ES, a, b
mv == <<N, ES, a, b>>

Init == N \in NMin .. NMax /\ ES \in 0 .. 2 /\ a \in 0 .. 2 ^ N - 1 /\ b = -1
\* fan the second operand out through Next so that all workers share the evaluation
Next == b = -1 /\ b' \in 0 .. 2 ^ N - 1 /\ UNCHANGED <<N, ES, a>>
Spec == Init /\ [][Next]_mv

PA == FromInt(a)
PB == FromInt(b)
\* the signed integer a pattern denotes in two's complement (an order isomorphism onto values)
SInt(x) == IF x >= 2 ^ (N - 1) THEN x - 2 ^ N ELSE x
Real(p) == ~IsNaR(N, p)
V(p) == Val(N, ES, p)

Commute == /\ PAdd(N, ES, PA, PB) = PAdd(N, ES, PB, PA)
           /\ PMul(N, ES, PA, PB) = PMul(N, ES, PB, PA)
SubIsAddNeg == PSub(N, ES, PA, PB) = PAdd(N, ES, PA, PNeg(N, ES, PB))
NegMul == PNeg(N, ES, PMul(N, ES, PA, PB)) = PMul(N, ES, PNeg(N, ES, PA), PB)
DivSelf == (Real(PA) /\ PA # <<>>) => PDiv(N, ES, PA, PA) = POne(N)
DivByOne == PDiv(N, ES, PA, POne(N)) = PA /\ PMul(N, ES, PA, POne(N)) = PA /\ PAdd(N, ES, PA, <<>>) = PA
FmaLaws == /\ PMulAdd(N, ES, PA, PB, <<>>) = PMul(N, ES, PA, PB)
           /\ PMulAdd(N, ES, PA, POne(N), PB) = PAdd(N, ES, PA, PB)
           /\ PMulSub(N, ES, PA, PB, PA) = PMulAdd(N, ES, PA, PB, PNeg(N, ES, PA))
           /\ PSubProduct(N, ES, PB, PA, PB) = PMulAdd(N, ES, PNeg(N, ES, PA), PB, PB)
\* value order = signed pattern order, NaR least
OrderIso == /\ (PCmp(N, ES, PA, PB) < 0) = (SInt(a) < SInt(b))
            /\ (PCmp(N, ES, PA, PB) = 0) = (a = b)
            /\ PMin(N, ES, PA, PB) \in {PA, PB} /\ PMax(N, ES, PA, PB) \in {PA, PB}
            /\ PLe(N, ES, PMin(N, ES, PA, PB), PMax(N, ES, PA, PB))
NegInvolution == PNeg(N, ES, PNeg(N, ES, PA)) = PA /\ (PNeg(N, ES, PA) = PA) = (PA = <<>> \/ IsNaR(N, PA))
AbsSign == /\ (Real(PA) => ~PIsNeg(N, ES, PAbs(N, ES, PA)))
           /\ PMul(N, ES, PSignum(N, ES, PA), PAbs(N, ES, PA)) = PA
\* C09: the integer functions are exactly representable and ordered floor <= x <= ceil
IntFns == Real(PA) =>
  /\ IntFnExact(N, ES, PA, DyRound) /\ IntFnExact(N, ES, PA, DyFloor) /\ IntFnExact(N, ES, PA, DyCeil)
  /\ IntFnExact(N, ES, PA, DyTrunc) /\ IntFnExact(N, ES, PA, DyFract)
  /\ DyCmp(DyFloor(V(PA)), V(PA)) <= 0 /\ DyCmp(V(PA), DyCeil(V(PA))) <= 0
  /\ DyCmp(DySub(DyCeil(V(PA)), DyFloor(V(PA))), DyOne) <= 0
  /\ DyCmp(DyFloor(V(PA)), DyRound(V(PA))) <= 0 /\ DyCmp(DyRound(V(PA)), DyCeil(V(PA))) <= 0
  /\ DyCmp(DyAdd(DyTrunc(V(PA)), DyFract(V(PA))), V(PA)) = 0
  /\ PAdd(N, ES, PTrunc(N, ES, PA), PFract(N, ES, PA)) = PA
\* sqrt of an exactly representable square is exact
SqrtOfSquare == (Real(PA) /\ DyCmp(V(PMul(N, ES, PA, PA)), DyMul(V(PA), V(PA))) = 0)
                   => PSqrt(N, ES, PMul(N, ES, PA, PA)) = PAbs(N, ES, PA)
\* add/mul are monotone in each argument (a consequence of correct rounding)
Monotone == (Real(PA) /\ Real(PB) /\ b + 1 < 2 ^ N /\ Real(FromInt(b + 1)) /\ SInt(b) < SInt(b + 1)) =>
               PCmp(N, ES, PAdd(N, ES, PA, PB), PAdd(N, ES, PA, FromInt(b + 1))) <= 0

Laws == b = -1 \/ (/\ Commute /\ SubIsAddNeg /\ NegMul /\ FmaLaws /\ OrderIso /\ Monotone)
Laws1 == b # -1 \/ (/\ DivSelf /\ DivByOne /\ NegInvolution /\ AbsSign /\ IntFns /\ SqrtOfSquare)
=======================================================================
