------------------------------ MODULE Quire ------------------------------
(* The quire: an exact fixed-point accumulator.  Abstract state          *)
(*   [nar |-> BOOLEAN, s |-> dyadic, inr |-> BOOLEAN]                    *)
(* s is the exact real sum; inr records that every partial sum so far    *)
(* stayed inside the quire's range (the properties speak only then).     *)
EXTENDS Convert

QFrac(N, ES) == 2 * (N - 2) * 2 ^ ES          \* fraction bits: 12 / 56 / 240
QWidth(N)    == (N * N) \div 2                \* 32 / 128 / 512

QZero == [nar |-> FALSE, s |-> DyZero, inr |-> TRUE]

\* |s| < 2^(W-1-QF), and s a multiple of 2^-QF (always true for sums of posit products)
QInRange(W, QF, s) == DyIsZero(s) \/ (DyScale(s) < W - 1 - QF /\ s.e >= -QF)

QUpd(W, QF, q, nar, s) == [nar |-> q.nar \/ nar, s |-> s, inr |-> q.inr /\ QInRange(W, QF, s)]

\* q += a*b  (sub: q -= a*b), a, b patterns of format (N, ES)
QAddProduct(W, QF, N, ES, q, a, b, sub) ==
  IF IsNaR(N, a) \/ IsNaR(N, b) THEN QUpd(W, QF, q, TRUE, q.s)
  ELSE LET t == DyMul(Val(N, ES, a), Val(N, ES, b))
       IN QUpd(W, QF, q, FALSE, DyAdd(q.s, IF sub THEN DyNeg(t) ELSE t))
\* q += a
QAddPosit(W, QF, N, ES, q, a, sub) ==
  IF IsNaR(N, a) THEN QUpd(W, QF, q, TRUE, q.s)
  ELSE LET t == Val(N, ES, a) IN QUpd(W, QF, q, FALSE, DyAdd(q.s, IF sub THEN DyNeg(t) ELSE t))
QNeg(q) == [q EXCEPT !.s = DyNeg(q.s)]
QFromPosit(W, QF, N, ES, a) == QAddPosit(W, QF, N, ES, QZero, a, FALSE)

\* observations
QIsNaR(q) == q.nar
QIsZero(q) == ~q.nar /\ DyIsZero(q.s)
QToPosit(N, ES, q) == IF q.nar THEN NaR(N) ELSE Round(N, ES, q.s)
\* W-bit two's complement image of s * 2^QF; NaR is the sign bit alone
QBits(W, QF, q) ==
  IF q.nar THEN Pow2(W - 1)
  ELSE IF DyIsZero(q.s) THEN <<>>
  ELSE LET mag == Shl(q.s.m, q.s.e + QF) IN IF q.s.neg THEN Sub(Pow2(W), mag) ELSE mag
QOfBits(W, QF, bits) ==
  IF bits = Pow2(W - 1) THEN [nar |-> TRUE, s |-> DyZero, inr |-> TRUE]
  ELSE IF Bit(bits, W - 1) = 1 THEN [nar |-> FALSE, s |-> Dy(TRUE, Sub(Pow2(W), bits), -QF), inr |-> TRUE]
  ELSE [nar |-> FALSE, s |-> Dy(FALSE, bits, -QF), inr |-> TRUE]

\* residual split: p1 = round(s), p2 = round(s - p1), p3 = round(s - p1 - p2), subtractions exact
QSplit(W, QF, N, ES, q, n) ==
  LET p1 == QToPosit(N, ES, q)
      q1 == QAddPosit(W, QF, N, ES, q, p1, TRUE)
      p2 == QToPosit(N, ES, q1)
      q2 == QAddPosit(W, QF, N, ES, q1, p2, TRUE)
      p3 == QToPosit(N, ES, q2)
  IN IF n = 2 THEN <<p1, p2>> ELSE <<p1, p2, p3>>
=======================================================================
