// Java overrides for the operators of spec/BigNat.tla (same meaning, BigInteger inside).
// Loaded by TLC through -Dtlc2.overrides.TLCOverrides=...:BigNatOverrides.
// The TLA+ definitions stay the specification; `check selftest` runs MCBigNat and a
// sample trace with and without this class and requires identical results.
import java.math.BigInteger;
import tlc2.overrides.ITLCOverrides;
import tlc2.overrides.TLAPlusOperator;
import tlc2.value.impl.BoolValue;
import tlc2.value.impl.IntValue;
import tlc2.value.impl.TupleValue;
import tlc2.value.impl.Value;

public class BigNatOverrides implements ITLCOverrides {
  @Override
  public Class[] get() { return new Class[] { BigNatOverrides.class }; }

  private static final int LB = 15;
  private static final int MASK = (1 << LB) - 1;

  static BigInteger big(final Value v) {
    final TupleValue t = (TupleValue) v.toTuple();
    if (t == null) throw new RuntimeException("BigNat: not a limb sequence: " + v);
    final Value[] e = t.elems;
    BigInteger r = BigInteger.ZERO;
    for (int i = e.length - 1; i >= 0; i--) {
      final int limb = ((IntValue) e[i]).val;
      if (limb < 0 || limb > MASK) throw new RuntimeException("BigNat: bad limb " + limb);
      r = r.shiftLeft(LB).or(BigInteger.valueOf(limb));
    }
    return r;
  }

  static Value limbs(BigInteger n) {
    if (n.signum() < 0) throw new RuntimeException("BigNat: negative result");
    final int len = (n.bitLength() + LB - 1) / LB;
    final Value[] e = new Value[len];
    for (int i = 0; i < len; i++) {
      e[i] = IntValue.gen(n.intValue() & MASK);
      n = n.shiftRight(LB);
    }
    return new TupleValue(e);
  }

  static int iv(final Value v) { return ((IntValue) v).val; }

  @TLAPlusOperator(identifier = "Add", module = "BigNat", warn = false)
  public static Value add(final Value a, final Value b) { return limbs(big(a).add(big(b))); }

  @TLAPlusOperator(identifier = "Sub", module = "BigNat", warn = false)
  public static Value sub(final Value a, final Value b) { return limbs(big(a).subtract(big(b))); }

  @TLAPlusOperator(identifier = "Cmp", module = "BigNat", warn = false)
  public static Value cmp(final Value a, final Value b) { return IntValue.gen(big(a).compareTo(big(b))); }

  @TLAPlusOperator(identifier = "Mul", module = "BigNat", warn = false)
  public static Value mul(final Value a, final Value b) { return limbs(big(a).multiply(big(b))); }

  @TLAPlusOperator(identifier = "MulSmall", module = "BigNat", warn = false)
  public static Value mulSmall(final Value a, final Value d) { return limbs(big(a).multiply(BigInteger.valueOf(iv(d)))); }

  @TLAPlusOperator(identifier = "DivSmall", module = "BigNat", warn = false)
  public static Value divSmall(final Value a, final Value d) { return limbs(big(a).divide(BigInteger.valueOf(iv(d)))); }

  @TLAPlusOperator(identifier = "Shl", module = "BigNat", warn = false)
  public static Value shl(final Value a, final Value n) { return limbs(big(a).shiftLeft(iv(n))); }

  @TLAPlusOperator(identifier = "Shr", module = "BigNat", warn = false)
  public static Value shr(final Value a, final Value n) { return limbs(big(a).shiftRight(iv(n))); }

  @TLAPlusOperator(identifier = "BitLen", module = "BigNat", warn = false)
  public static Value bitLen(final Value a) { return IntValue.gen(big(a).bitLength()); }

  @TLAPlusOperator(identifier = "Bit", module = "BigNat", warn = false)
  public static Value bit(final Value a, final Value i) { return IntValue.gen(big(a).testBit(iv(i)) ? 1 : 0); }

  @TLAPlusOperator(identifier = "LowNonZero", module = "BigNat", warn = false)
  public static Value lowNonZero(final Value a, final Value n) {
    final BigInteger x = big(a);
    final int k = iv(n);
    if (x.signum() == 0 || k <= 0) return BoolValue.ValFalse;
    return x.getLowestSetBit() < k ? BoolValue.ValTrue : BoolValue.ValFalse;
  }

  @TLAPlusOperator(identifier = "Pow2", module = "BigNat", warn = false)
  public static Value pow2(final Value n) { return limbs(BigInteger.ONE.shiftLeft(iv(n))); }

  @TLAPlusOperator(identifier = "Low", module = "BigNat", warn = false)
  public static Value low(final Value a, final Value n) {
    final int k = iv(n);
    return limbs(big(a).and(BigInteger.ONE.shiftLeft(k).subtract(BigInteger.ONE)));
  }

  @TLAPlusOperator(identifier = "DivMod", module = "BigNat", warn = false)
  public static Value divMod(final Value a, final Value b) {
    final BigInteger[] qr = big(a).divideAndRemainder(big(b));
    return new TupleValue(new Value[] { limbs(qr[0]), limbs(qr[1]) });
  }

  @TLAPlusOperator(identifier = "ISqrt", module = "BigNat", warn = false)
  public static Value isqrt(final Value a) { return limbs(big(a).sqrt()); }

  @TLAPlusOperator(identifier = "FromInt", module = "BigNat", warn = false)
  public static Value fromInt(final Value n) { return limbs(BigInteger.valueOf(iv(n))); }

  @TLAPlusOperator(identifier = "ToInt", module = "BigNat", warn = false)
  public static Value toInt(final Value a) { return IntValue.gen(big(a).intValueExact()); }
}
