SPECIFICATION Spec
CONSTANTS Len_ = 2
INVARIANT Emit
CHECK_DEADLOCK FALSE
