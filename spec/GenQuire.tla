----------------------------- MODULE GenQuire -----------------------------
(* T1 for the quire: TLC enumerates every history of exactly Len mutating   *)
(* operations over a small term set for the three real quire types and      *)
(* prints each as one behaviour: the events with the machine's expected     *)
(* observation after every step (bit image, is_zero, is_nar) and the        *)
(* expected to_posit at the end.  The harness replays them on Q8E0, Q16E1,  *)
(* Q32E2 and compares step by step.                                         *)
EXTENDS Quire, Json, TLC
CONSTANTS Len_
VARIABLES t, q, evs, n
mv == <<t, q, evs, n>>

TT == <<"p8", "p16", "p32">>
NN == <<8, 16, 32>>[t]
EE == <<0, 1, 2>>[t]
W == <<32, 128, 512>>[t]
QF == QFrac(NN, EE)

Terms == {NaR(NN), MinPos, Neg(NN, MaxPos(NN)), Add(POne(NN), <<1>>), Neg(NN, Add(POne(NN), Pow2(NN - 4)))}

Init == t \in 1 .. 3 /\ q = QZero /\ evs = <<>> /\ n = 0

Obs(ev, q2) == [ev EXCEPT !.x_bits = IF q2.inr THEN QBits(W, QF, q2) ELSE <<>>, !.x_z = QIsZero(q2), !.x_nn = QIsNaR(q2)]
Base(op, sp) == [op |-> op, t |-> TT[t], sp |-> sp, q |-> 0, x_bits |-> <<>>, x_z |-> FALSE, x_nn |-> FALSE]

Prod(a, b, sub) ==
  LET q2 == QAddProduct(W, QF, NN, EE, q, a, b, sub)
      ev == [Base(IF sub THEN "q_sub" ELSE "q_add", "pp") EXCEPT !.x_bits = <<>>] IN
  /\ q' = q2
  /\ evs' = Append(evs, Obs([op |-> ev.op, t |-> ev.t, sp |-> ev.sp, q |-> 0, a |-> a, b |-> b,
                             x_bits |-> <<>>, x_z |-> FALSE, x_nn |-> FALSE], q2))
One(a, sub) ==
  LET q2 == QAddPosit(W, QF, NN, EE, q, a, sub) IN
  /\ q' = q2
  /\ evs' = Append(evs, Obs([op |-> IF sub THEN "q_sub" ELSE "q_add", t |-> TT[t], sp |-> "p", q |-> 0, a |-> a,
                             x_bits |-> <<>>, x_z |-> FALSE, x_nn |-> FALSE], q2))
Negate == /\ q' = QNeg(q)
          /\ evs' = Append(evs, Obs(Base("q_neg", "m"), QNeg(q)))

Next == /\ n < Len_ /\ n' = n + 1 /\ UNCHANGED t
        /\ \/ \E a \in Terms, b \in Terms, s \in BOOLEAN : Prod(a, b, s)
           \/ \E a \in Terms, s \in BOOLEAN : One(a, s)
           \/ Negate
Spec == Init /\ [][Next]_mv

Final == Append(<<[op |-> "q_init", t |-> TT[t], sp |-> "m", q |-> 0, x_bits |-> <<>>, x_z |-> TRUE, x_nn |-> FALSE]>> \o evs,
                [op |-> "q_to_posit", t |-> TT[t], sp |-> "m", q |-> 0, x_r |-> QToPosit(NN, EE, q)])
Emit == n < Len_ \/ ~q.inr \/ PrintT("GEN" \o ToJson(Final))
=======================================================================
