------------------------------ MODULE MCConv ------------------------------
(* Self-consistency of the conversion layer of the specification:          *)
(*  - IEEE decode/encode are inverse on every class of float pattern;       *)
(*  - posit -> f64 is exact for every P8E0 / P16E1 pattern, posit -> f32    *)
(*    exact for those too, and float -> posit brings the pattern back;      *)
(*  - widening P8 -> P16 -> P32 preserves the value and narrowing back is   *)
(*    the identity; narrowing is monotone;                                  *)
(*  - integers: from_int then to_int is the identity when exact.            *)
EXTENDS Quire, TLC
VARIABLES k, j
mv == <<k, j>>
\* k: block of 256 patterns, j: pattern within the block (fan-out through Next)
Init == k \in 0 .. 255 /\ j = -1
Next == j = -1 /\ j' \in 0 .. 255 /\ UNCHANGED k
Spec == Init /\ [][Next]_mv

P16 == FromInt(k * 256 + j)          \* every P16E1 pattern
P8  == FromInt(j)                    \* every P8E0 pattern (for each k)
Real16 == ~IsNaR(16, P16)

FloatRoundTrip16 == Real16 /\ P16 # <<>> =>
  LET v == Val(16, 1, P16)
      b64 == FEncode(F64, v)  b32 == FEncode(F32, v)
  IN /\ DyCmp(FDecode(F64, b64).v, v) = 0 /\ FDecode(F64, b64).k = "real"
     /\ DyCmp(FDecode(F32, b32).v, v) = 0
     /\ PFromFloat(16, 1, F64, b64) = P16 /\ PFromFloat(16, 1, F32, b32) = P16
     /\ PToFloatExact(16, 1, F64, P16) /\ PToFloatExact(16, 1, F32, P16)
Widen16 == LET w == PConv(16, 1, 32, 2, P16) IN
  /\ (Real16 => DyCmp(Val(32, 2, w), Val(16, 1, P16)) = 0)
  /\ PConv(32, 2, 16, 1, w) = P16
  /\ (IsNaR(16, P16) => IsNaR(32, w))
  /\ PToFloatOk(32, 2, F64, w, IF Real16 /\ P16 # <<>> THEN FEncode(F64, Val(16, 1, P16)) ELSE IF Real16 THEN <<>> ELSE Shl(<<4095>>, 51))
Widen8 == k # 0 \/ LET w == PConv(8, 0, 16, 1, P8) w2 == PConv(8, 0, 32, 2, P8) IN
  /\ (~IsNaR(8, P8) => DyCmp(Val(16, 1, w), Val(8, 0, P8)) = 0 /\ DyCmp(Val(32, 2, w2), Val(8, 0, P8)) = 0)
  /\ PConv(16, 1, 8, 0, w) = P8 /\ PConv(32, 2, 8, 0, w2) = P8
  /\ PConv(16, 1, 32, 2, w) = w2
\* narrowing is monotone: consecutive P16 patterns never narrow in the wrong order
NarrowMonotone == (Real16 /\ k * 256 + j + 1 < 65536 /\ ~IsNaR(16, FromInt(k * 256 + j + 1))) =>
  PCmp(8, 0, PConv(16, 1, 8, 0, P16), PConv(16, 1, 8, 0, FromInt(k * 256 + j + 1))) <= 0
\* integers: i16 pattern k*256+j
I16 == FromInt(k * 256 + j)
IntRoundTrip ==
  /\ PToInt(32, 2, 32, TRUE, PFromInt(32, 2, 16, TRUE, I16)) = (IF Bit(I16, 15) = 1 THEN Add(I16, Shl(FromInt(65535), 16)) ELSE I16)
  /\ PToInt(32, 2, 64, FALSE, PFromInt(32, 2, 16, FALSE, I16)) = I16
  /\ PFromInt(16, 1, 16, TRUE, I16) = PConv(32, 2, 16, 1, PFromInt(32, 2, 16, TRUE, I16))
  /\ PToInt(16, 1, 32, FALSE, P16) = PToInt(32, 2, 32, FALSE, PConv(16, 1, 32, 2, IF Real16 THEN P16 ELSE <<>>)) \/ ~Real16
\* IEEE encode/decode on float patterns: sign j%2, exponent field from k, significand classes from j
FBits32 == Add(Shl(FromInt(j % 2), 31), Add(Shl(FromInt(k), 23), FromInt((j \div 2) * 65793 % 8388608)))
FBits64 == Add(Shl(FromInt(j % 2), 63), Add(Shl(FromInt(k * 8 + (j % 8)), 52), Shl(FromInt((j \div 2) * 65793), 29)))
IeeeInverse ==
  /\ LET d == FDecode(F32, FBits32) IN d.k = "real" => FEncode(F32, d.v) = FBits32
  /\ LET d == FDecode(F64, FBits64) IN d.k = "real" => FEncode(F64, d.v) = FBits64
  \* f32 -> f64 widening is exact, so both routes into a posit agree
  /\ LET d == FDecode(F32, FBits32) IN d.k = "real" =>
        PFromFloat(32, 2, F32, FBits32) = PFromFloat(32, 2, F64, FEncode(F64, d.v))

All == j = -1 \/ (FloatRoundTrip16 /\ Widen16 /\ Widen8 /\ NarrowMonotone /\ IntRoundTrip /\ IeeeInverse)
=======================================================================
