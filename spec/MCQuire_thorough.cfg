SPECIFICATION Spec
CONSTANTS MaxLen = 4
          Fmts <- FmtsThorough
INVARIANT Exact NaRSticky Obs Split RoundTrip
VIEW view
CHECK_DEADLOCK FALSE
