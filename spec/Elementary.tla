---------------------------- MODULE Elementary ----------------------------
(* Rigorous enclosures of the elementary functions, in exact dyadic "ball"  *)
(* arithmetic on BigNats:   ball = [c |-> dyadic centre, r |-> dyadic >= 0] *)
(* encloses every real y with |y - c| <= r.  Centres are kept to P bits     *)
(* (relative), every truncation is added to the radius, radii are rounded   *)
(* up.  Series are Taylor / atanh with explicit remainder bounds.  The only *)
(* literals are floor(pi * 2^270) and floor(ln2 * 2^270); MCElem re-derives *)
(* both from their series (Machin; 2 atanh(1/3)) and checks them.           *)
(*                                                                          *)
(* A result pattern is judged through its rounding cell: the verdict is     *)
(* "ok", "wrong" (the enclosure lies strictly outside the allowed cells:    *)
(* the only verdict that raises a violation) or "undecided".                *)
EXTENDS Posit

-----------------------------------------------------------------------------
(* dyadic helpers *)
DyShift(x, k) == IF DyIsZero(x) THEN x ELSE [x EXCEPT !.e = x.e + k]
DyInt(n) == IF n >= 0 THEN Dy(FALSE, FromInt(n), 0) ELSE Dy(TRUE, FromInt(-n), 0)
DyPow2(k) == Dy(FALSE, <<1>>, k)
\* floor of a dyadic as a TLC int (|x| < 2^30 required)
DyFloorInt(x) ==
  IF DyIsZero(x) THEN 0
  ELSE LET ip == IF x.e >= 0 THEN Shl(x.m, x.e) ELSE Shr(x.m, -x.e)
           fr == x.e < 0 /\ LowNonZero(x.m, -x.e)
       IN IF x.neg THEN -(ToInt(ip) + (IF fr THEN 1 ELSE 0)) ELSE ToInt(ip)
\* nearest integer (ties up), as a TLC int
DyNearInt(x) == DyFloorInt(DyAdd(x, DyPow2(-1)))

\* keep P significant bits of x (truncate toward zero): [v, err] with |x - v| <= err
TruncP(x, P) ==
  IF DyIsZero(x) \/ BitLen(x.m) <= P THEN [v |-> x, err |-> DyZero]
  ELSE LET s == BitLen(x.m) - P IN
       [v |-> Dy(x.neg, Shr(x.m, s), x.e + s), err |-> DyPow2(x.e + s)]
\* round a radius up to at most 20 significant bits
RUp(r) == IF DyIsZero(r) \/ BitLen(r.m) <= 20 THEN r
          ELSE LET s == BitLen(r.m) - 20 IN Dy(FALSE, Add(Shr(r.m, s), <<1>>), r.e + s)
\* x / y to P bits, truncated: [v, err]
DyDivP(x, y, P) ==
  IF DyIsZero(x) THEN [v |-> DyZero, err |-> DyZero]
  ELSE LET d == P + BitLen(y.m) - BitLen(x.m) + 1
           s == IF d > 0 THEN d ELSE 0
           q == DivMod(Shl(x.m, s), y.m)[1]
       IN [v |-> Dy(x.neg # y.neg, q, x.e - y.e - s), err |-> DyPow2(x.e - y.e - s)]

-----------------------------------------------------------------------------
(* ball arithmetic *)
Ball(c, r) == [c |-> c, r |-> r]
BExact(x) == Ball(x, DyZero)
BNorm(c, r, P) == LET t == TruncP(c, P) IN Ball(t.v, RUp(DyAdd(r, t.err)))
BAdd(a, b, P) == BNorm(DyAdd(a.c, b.c), DyAdd(a.r, b.r), P)
BSub(a, b, P) == BNorm(DySub(a.c, b.c), DyAdd(a.r, b.r), P)
BNeg(a) == Ball(DyNeg(a.c), a.r)
BMul(a, b, P) ==
  BNorm(DyMul(a.c, b.c),
        DyAdd(DyAdd(DyMul(DyAbs(a.c), b.r), DyMul(DyAbs(b.c), a.r)), DyMul(a.r, b.r)), P)
BMulDy(a, x, P) == BNorm(DyMul(a.c, x), DyMul(a.r, DyAbs(x)), P)
BShift(a, k) == Ball(DyShift(a.c, k), DyShift(a.r, k))
\* divide by a small positive integer d (< 2^15)
BDivInt(a, d, P) ==
  LET q == DyDivP(a.c, DyInt(d), P) IN Ball(q.v, RUp(DyAdd(DyAdd(a.r, q.err), DyZero)))
BLower(a) == DySub(a.c, a.r)
BUpper(a) == DyAdd(a.c, a.r)
\* magnitude bounds
BAbsUpper(a) == DyAdd(DyAbs(a.c), a.r)
BAbsLower(a) == LET d == DySub(DyAbs(a.c), a.r) IN IF d.neg THEN DyZero ELSE d
\* a / b, requires 0 outside b
BDiv(a, b, P) ==
  LET q  == DyDivP(a.c, b.c, P)
      bl == BAbsLower(b)
      \* |a/b - ac/bc| <= (a.r |bc| + |ac| b.r) / (|bc| bl)
      num == DyAdd(DyMul(a.r, DyAbs(b.c)), DyMul(DyAbs(a.c), b.r))
      den == DyMul(DyAbs(b.c), bl)
      e1 == IF DyIsZero(num) THEN DyZero
            ELSE LET t == DyDivP(num, den, 24) IN DyAdd(t.v, t.err)
  IN Ball(q.v, RUp(DyAdd(e1, q.err)))
\* three-valued comparison of the enclosed real with a dyadic b: 1 (y > b), -1 (y < b), 0 (unknown)
BCmp(a, b) == IF DyCmp(BLower(a), b) > 0 THEN 1 ELSE IF DyCmp(BUpper(a), b) < 0 THEN -1
              ELSE IF DyIsZero(a.r) /\ DyCmp(a.c, b) = 0 THEN 2 ELSE 0      \* 2: exactly equal
\* is everything in the ball tiny?  scale of |c| + r below -k
BTiny(a, k) == LET u == BAbsUpper(a) IN DyIsZero(u) \/ DyScale(u) < -k
\* ... relative to the running sum s
BTinyRel(a, s, k) == LET u == BAbsUpper(a) IN
  DyIsZero(u) \/ (IF DyIsZero(s.c) THEN DyScale(u) < -k ELSE DyScale(u) < DyScale(s.c) - k)

-----------------------------------------------------------------------------
(* constants *)
CP == 270
PiLimbs  == <<20810, 13892, 27726, 30001, 8379, 3712, 6643, 1093, 590, 8786, 28787, 23558, 26152, 6296, 12429, 4276, 23202, 4639, 3>>
Ln2Limbs == <<31214, 32021, 2986, 11959, 10292, 12652, 10635, 25806, 15568, 22432, 29430, 12295, 3790, 24143, 30618, 31289, 1533, 22713>>
PiBall  == Ball(Dy(FALSE, PiLimbs, -CP), DyPow2(-CP))
Ln2Ball == Ball(Dy(FALSE, Ln2Limbs, -CP), DyPow2(-CP))

-----------------------------------------------------------------------------
(* exp *)
\* outside |x| < 2^12 the value is beyond every format here; a one-sided bound is enough
Huge == 5900          \* e^4096 > 2^5900: a true one-sided bound
\* Taylor series of exp at the dyadic point c, |c| <= 1: sum_{i<n} c^i/i!, remainder <= 2|c^n/n!|
RECURSIVE ExpLoop(_, _, _, _, _)
ExpLoop(c, i, term, sum, P) ==
  IF BTinyRel(term, sum, P + 6) \/ i > 120 THEN Ball(sum.c, RUp(DyAdd(sum.r, DyShift(BAbsUpper(term), 1))))
  ELSE LET t2 == BDivInt(BMulDy(term, c, P), i, P) IN ExpLoop(c, i + 1, t2, BAdd(sum, t2, P), P)
\* (the remainder bounds assume |c| <= 1; outside that an uninformative but true enclosure is returned,
\*  which can only lead to the verdict "undecided")
ExpPoint(c, P) == IF DyIsZero(c) THEN BExact(DyOne)
                  ELSE IF DyScale(c) >= 1 THEN Ball(DyPow2(Huge), DyPow2(Huge))
                  ELSE ExpLoop(c, 1, BExact(DyOne), BExact(DyOne), P)
\* exp of a ball with |centre| <= 1: e^(c +- r) within e^c (1 +- 2r) for r <= 1/2
ExpBall(t, P) ==
  LET E == ExpPoint(TruncP(t.c, P).v, P)
      rr == DyAdd(t.r, TruncP(t.c, P).err)
  IN Ball(E.c, RUp(DyAdd(E.r, DyShift(DyMul(BAbsUpper(E), rr), 1))))
ExpDy(x, P) ==
  IF DyIsZero(x) THEN BExact(DyOne)
  ELSE IF DyScale(x) >= 12 THEN (IF x.neg THEN Ball(DyPow2(-Huge - 1), DyPow2(-Huge - 1)) ELSE BExact(DyPow2(Huge)))
  ELSE LET k == DyNearInt(DyMul(x, Dy(FALSE, FromInt(774541003), -29)))       \* x / ln2, roughly
           t == BSub(BExact(x), BMulDy(Ln2Ball, DyInt(k), P + 16), P + 16)  \* |t| <= 0.35 + slack
       IN BShift(ExpBall(t, P), k)
\* 2^x = 2^floor(x) * e^(frac(x) ln2)
Exp2Dy(x, P) ==
  IF DyIsZero(x) THEN BExact(DyOne)
  ELSE IF DyScale(x) >= 12 THEN (IF x.neg THEN Ball(DyPow2(-Huge - 1), DyPow2(-Huge - 1)) ELSE BExact(DyPow2(Huge)))
  ELSE LET n == DyFloorInt(x)
           f == DySub(x, DyInt(n))
       IN IF DyIsZero(f) THEN BExact(DyPow2(n))
          ELSE BShift(ExpBall(BMulDy(Ln2Ball, f, P + 8), P), n)

-----------------------------------------------------------------------------
(* sin / cos *)
\* Taylor at the dyadic point c, |c| <= 1.  pw = running term, k = next factorial index
RECURSIVE SinCosLoop(_, _, _, _, _, _)
SinCosLoop(c2, k, term, sum, sgn, P) ==
  IF BTinyRel(term, sum, P + 6) \/ k > 160 THEN Ball(sum.c, RUp(DyAdd(sum.r, DyShift(BAbsUpper(term), 1))))
  ELSE LET t2 == BDivInt(BMulDy(term, c2, P), k * (k + 1), P)
           s2 == IF sgn THEN BSub(sum, t2, P) ELSE BAdd(sum, t2, P)
       IN SinCosLoop(c2, k + 2, t2, s2, ~sgn, P)
SinPoint(c, P) == IF DyIsZero(c) THEN BExact(DyZero)
                  ELSE IF DyScale(c) >= 1 THEN Ball(DyZero, DyOne)
                  ELSE SinCosLoop(DyMul(c, c), 2, BExact(c), BExact(c), TRUE, P)
CosPoint(c, P) == IF DyIsZero(c) THEN BExact(DyOne)
                  ELSE IF DyScale(c) >= 1 THEN Ball(DyZero, DyOne)
                  ELSE SinCosLoop(DyMul(c, c), 1, BExact(DyOne), BExact(DyOne), TRUE, P)
\* of a ball (|sin'|, |cos'| <= 1)
SinBall(t, P) == LET tc == TruncP(t.c, P) s == SinPoint(tc.v, P) IN Ball(s.c, RUp(DyAdd(s.r, DyAdd(t.r, tc.err))))
CosBall(t, P) == LET tc == TruncP(t.c, P) s == CosPoint(tc.v, P) IN Ball(s.c, RUp(DyAdd(s.r, DyAdd(t.r, tc.err))))

\* <<sin(pi x), cos(pi x)>> for a dyadic x: exact reduction of x modulo 2 and by symmetry to [0, 1/4]
SinCosPi(x, P) ==
  IF DyIsZero(x) THEN <<BExact(DyZero), BExact(DyOne)>>
  ELSE
    LET ax == DyAbs(x)
        ip == IF ax.e >= 0 THEN Shl(ax.m, ax.e) ELSE Shr(ax.m, -ax.e)
        odd == Bit(ip, 0) = 1
        f  == DySub(ax, Dy(FALSE, ip, 0))                          \* in [0, 1)
        half == DyPow2(-1)  quarter == DyPow2(-2)
        g  == IF DyCmp(f, half) > 0 THEN DySub(DyOne, f) ELSE f    \* in [0, 1/2]; cos flips sign if reflected
        refl == DyCmp(f, half) > 0
        swap == DyCmp(g, quarter) > 0
        h  == IF swap THEN DySub(half, g) ELSE g                   \* in [0, 1/4]
        a  == BMulDy(PiBall, h, P + 8)
        sh == IF DyIsZero(h) THEN BExact(DyZero) ELSE SinBall(a, P)
        ch == IF DyIsZero(h) THEN BExact(DyOne) ELSE CosBall(a, P)
        sg == IF swap THEN ch ELSE sh                               \* sin(pi g)
        cg == IF swap THEN sh ELSE ch                               \* cos(pi g)
        sf == sg
        cf == IF refl THEN BNeg(cg) ELSE cg
        s1 == IF odd THEN BNeg(sf) ELSE sf
        c1 == IF odd THEN BNeg(cf) ELSE cf
    IN <<IF x.neg THEN BNeg(s1) ELSE s1, c1>>

\* <<sin x, cos x>> in radians, |x| < 2^22
SinCosRad(x, P) ==
  IF DyIsZero(x) THEN <<BExact(DyZero), BExact(DyOne)>>
  ELSE
    LET k == DyNearInt(DyMul(x, Dy(FALSE, FromInt(683565276), -30)))   \* x * 2/pi, roughly
        t == BSub(BExact(x), BMulDy(BShift(PiBall, -1), DyInt(k), P + 64), P + 64)
        s == SinBall(t, P)  c == CosBall(t, P)
        q == k % 4
    IN CASE q = 0 -> <<s, c>> [] q = 1 -> <<c, BNeg(s)>> [] q = 2 -> <<BNeg(s), BNeg(c)>> [] OTHER -> <<BNeg(c), s>>

-----------------------------------------------------------------------------
(* ln via 2 atanh((m-1)/(m+1)) *)
RECURSIVE AtanhLoop(_, _, _, _, _)
\* sum_{j} z^(2j+1)/(2j+1): pw = z^(2j+1) (ball), next odd index k
AtanhLoop(z2, k, pw, sum, P) ==
  IF BTinyRel(pw, sum, P + 6) \/ k > 400 THEN Ball(sum.c, RUp(DyAdd(sum.r, DyShift(BAbsUpper(pw), 1))))
  ELSE LET p2 == BMul(pw, z2, P) IN AtanhLoop(z2, k + 2, p2, BAdd(sum, BDivInt(p2, k, P), P), P)
Atanh(z, P) == IF DyIsZero(z.c) /\ DyIsZero(z.r) THEN BExact(DyZero) ELSE AtanhLoop(BMul(z, z, P), 3, z, z, P)
\* ln of a positive dyadic
LnDy(x, P) ==
  LET L  == BitLen(x.m)
      M0 == Dy(FALSE, x.m, -(L - 1))                     \* in [1, 2)
      big == DyCmp(M0, Dy(FALSE, <<3>>, -1)) > 0         \* > 1.5: halve
      M  == IF big THEN DyShift(M0, -1) ELSE M0          \* in [0.75, 1.5]
      E  == x.e + L - 1 + (IF big THEN 1 ELSE 0)
      num == DySub(M, DyOne)  den == DyAdd(M, DyOne)
  IN IF DyIsZero(num) THEN BMulDy(Ln2Ball, DyInt(E), P + 8)
     ELSE LET q == DyDivP(num, den, P + 4)
              z == Ball(q.v, q.err)
              a == BShift(Atanh(z, P + 4), 1)
          IN BAdd(BMulDy(Ln2Ball, DyInt(E), P + 8), a, P + 8)
Log2Dy(x, P) ==
  LET L == BitLen(x.m) IN
  IF x.m = Pow2(L - 1) THEN BExact(DyInt(x.e + L - 1))      \* exact power of two
  ELSE BDiv(LnDy(x, P + 8), Ln2Ball, P)

-----------------------------------------------------------------------------
(* sinh / cosh *)
RECURSIVE SinhLoop(_, _, _, _, _)
SinhLoop(c2, k, term, sum, P) ==
  IF BTinyRel(term, sum, P + 6) \/ k > 160 THEN Ball(sum.c, RUp(DyAdd(sum.r, DyShift(BAbsUpper(term), 1))))
  ELSE LET t2 == BDivInt(BMulDy(term, c2, P), k * (k + 1), P) IN SinhLoop(c2, k + 2, t2, BAdd(sum, t2, P), P)
SinhDy(x, P) ==
  IF DyIsZero(x) THEN BExact(DyZero)
  ELSE IF DyScale(x) < 0 THEN
     \* |x| < 1: the Taylor series keeps relative accuracy; the remainder bound needs a ratio <= 1/2,
     \* true from the first term on since x^2/6 < 1/2
     LET s == SinhLoop(DyMul(x, x), 2, BExact(x), BExact(x), P) IN s
  ELSE LET a == ExpDy(x, P) b == ExpDy(DyNeg(x), P) IN BShift(BSub(a, b, P), -1)
CoshDy(x, P) == LET a == ExpDy(x, P) b == ExpDy(DyNeg(x), P) IN BShift(BAdd(a, b, P), -1)

-----------------------------------------------------------------------------
(* rounding cells *)
\* signed integer reading of an N-bit pattern as <<neg, magnitude-as-int>> is not possible for N = 32
\* in TLC ints, so cells are computed on patterns: Succ/Pred in the cyclic pattern order.
PSucc(N, p) == Low(Add(p, <<1>>), N)
PPred(N, p) == IF p = <<>> THEN Sub(Pow2(N), <<1>>) ELSE Sub(p, <<1>>)
RECURSIVE PStep(_, _, _)
\* move k steps up (k > 0) or down (k < 0) in value order, saturating at +-maxpos (never onto NaR)
PStep(N, p, k) ==
  IF k = 0 THEN p
  ELSE IF k > 0 THEN (IF p = MaxPos(N) THEN p ELSE PStep(N, PSucc(N, p), k - 1))
  ELSE (IF p = Neg(N, MaxPos(N)) THEN p ELSE PStep(N, PPred(N, p), k + 1))
\* (the (N+1)-bit pattern with the same value as the N-bit pattern p is 2p)
\* lower / upper boundary of the cell of p: [kind, v] kind in {"val", "-inf", "+inf", "zero"}
CellLo(N, ES, p) ==
  IF p = Neg(N, MaxPos(N)) THEN [kind |-> "-inf", v |-> DyZero]
  ELSE IF p = <<>> \/ p = MinPos THEN [kind |-> "zero", v |-> DyZero]
  ELSE [kind |-> "val", v |-> Val(N + 1, ES, PPred(N + 1, Low(Shl(p, 1), N + 1)))]
CellHi(N, ES, p) ==
  IF p = MaxPos(N) THEN [kind |-> "+inf", v |-> DyZero]
  ELSE IF p = <<>> \/ p = Neg(N, MinPos) THEN [kind |-> "zero", v |-> DyZero]
  ELSE [kind |-> "val", v |-> Val(N + 1, ES, PSucc(N + 1, Low(Shl(p, 1), N + 1)))]

\* Verdict for a result pattern r (real, not NaR) given a three-valued comparator of the true value
\* y with any dyadic b:  C(b) = 1 (y > b), -1 (y < b), 2 (y = b exactly), 0 (unknown);
\* yzero: TRUE iff y is known to be exactly zero; k = allowed distance in encodings.
Verdict(N, ES, r, k, yzero, C(_)) ==
  IF yzero THEN
     \* exactly zero is representable: within k encodings of 0
     (IF k = 0 THEN (IF r = <<>> THEN "ok" ELSE "wrong")
      ELSE IF \E j \in -k .. k : PStep(N, <<>>, j) = r THEN "ok" ELSE "wrong")
  ELSE
    LET lo == CellLo(N, ES, PStep(N, r, -k))
        hi == CellHi(N, ES, PStep(N, r, k))
        cl == IF lo.kind = "-inf" THEN 1 ELSE C(lo.v)      \* want y >= lo  (y > 0 strictly at "zero")
        ch == IF hi.kind = "+inf" THEN -1 ELSE C(hi.v)     \* want y <= hi
        \* a non-zero y never rounds to the zero pattern when k = 0
    IN IF k = 0 /\ r = <<>> THEN "wrong"
       ELSE IF cl \in {-1, 3} \/ ch \in {1, 3} THEN "wrong"      \* (3: the comparator says "nowhere near")
       ELSE IF (lo.kind = "zero" /\ cl = 2) \/ (hi.kind = "zero" /\ ch = 2) THEN "wrong"
       ELSE IF cl = 0 \/ ch = 0 THEN "undecided"
       ELSE "ok"
=======================================================================
