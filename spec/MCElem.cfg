SPECIFICATION Spec
INVARIANT All ConstOk
CHECK_DEADLOCK FALSE
