SPECIFICATION Spec
CONSTANTS NMin = 2
          NMax = 9
INVARIANT RoundIsCorrect RoundMonotone StickyMeaning RoundTrip NeverZeroOrNaR QuotOk SqrtOk
CHECK_DEADLOCK FALSE
