SPECIFICATION Spec
CONSTANTS KStep = 3
INVARIANT Emit
CHECK_DEADLOCK FALSE
