----------------------------- MODULE Polynom -----------------------------
(* Polynomial evaluation (src/polynom.rs) as its documented staging: each  *)
(* stage is one quire, cleared, fed `1*c_k + x*c_(k-1) + x^2*... `, and     *)
(* rounded once; x^2 = x*x, x^3 = x^2*x, x^4 = x^2*x^2 are individually     *)
(* rounded posit products.  A coefficient is a sequence of parts (one part  *)
(* for T = Self, k parts for T = [Self; k]); `q += (x, T)` adds x*part for  *)
(* every part.  Coefficients are given highest degree first.                *)
EXTENDS Quire

\* F = [N, ES, W, QF]
PF(N, ES) == [N |-> N, ES |-> ES, W |-> QWidth(N), QF |-> QFrac(N, ES)]

RECURSIVE AddParts(_, _, _, _, _)
AddParts(F, q, x, parts, i) ==
  IF i > Len(parts) THEN q
  ELSE AddParts(F, QAddProduct(F.W, F.QF, F.N, F.ES, q, x, parts[i], FALSE), x, parts, i + 1)

RECURSIVE AddTerms(_, _, _, _)
AddTerms(F, q, ts, i) ==
  IF i > Len(ts) THEN q ELSE AddTerms(F, AddParts(F, q, ts[i][1], ts[i][2], 1), ts, i + 1)

\* one quire stage: clear, accumulate the <<x, coefficient>> terms in order, round once
Stage(F, ts) == QToPosit(F.N, F.ES, AddTerms(F, QZero, ts, 1))

One(F) == POne(F.N)

\* the k-functions: xs = <<x, x2, x3, x4>>, p = leading coefficient, c = the other n coefficients
RECURSIVE PolyK(_, _, _, _, _)
PolyK(F, n, xs, p, c) ==
  CASE n = 1 -> Stage(F, << <<One(F), c[1]>>, <<xs[1], p>> >>)
    [] n = 2 -> Stage(F, << <<One(F), c[2]>>, <<xs[1], c[1]>>, <<xs[2], p>> >>)
    [] n = 3 -> Stage(F, << <<One(F), c[3]>>, <<xs[1], c[2]>>, <<xs[2], c[1]>>, <<xs[3], p>> >>)
    [] n = 4 -> Stage(F, << <<One(F), c[4]>>, <<xs[1], c[3]>>, <<xs[2], c[2]>>, <<xs[3], c[1]>>, <<xs[4], p>> >>)
    [] n = 5 -> PolyK(F, 3, xs, << PolyK(F, 2, xs, p, SubSeq(c, 1, 2)) >>, SubSeq(c, 3, 5))
    [] n = 6 -> PolyK(F, 3, xs, << PolyK(F, 3, xs, p, SubSeq(c, 1, 3)) >>, SubSeq(c, 4, 6))
    [] n = 7 -> PolyK(F, 4, xs, << PolyK(F, 3, xs, p, SubSeq(c, 1, 3)) >>, SubSeq(c, 4, 7))
    [] n = 8 -> PolyK(F, 4, xs, << PolyK(F, 4, xs, p, SubSeq(c, 1, 4)) >>, SubSeq(c, 5, 8))
    [] OTHER -> PolyK(F, 4, xs, << PolyK(F, n - 4, xs, p, SubSeq(c, 1, n - 4)) >>, SubSeq(c, n - 3, n))

Powers(F, x) ==
  LET x2 == PMul(F.N, F.ES, x, x) IN <<x, x2, PMul(F.N, F.ES, x2, x), PMul(F.N, F.ES, x2, x2)>>

\* x.polyN(&c), c a sequence of n+1 coefficients (each a sequence of parts)
Poly(F, n, x, c) == PolyK(F, n, Powers(F, x), c[1], SubSeq(c, 2, n + 1))
\* the "more accurate" two-stage variants
Poly3a(F, x, c) ==
  LET xs == Powers(F, x) p == PolyK(F, 1, xs, c[1], <<c[2]>>) IN PolyK(F, 2, xs, <<p>>, <<c[3], c[4]>>)
Poly4a(F, x, c) ==
  LET xs == Powers(F, x) p == PolyK(F, 2, xs, c[1], <<c[2], c[3]>>) IN PolyK(F, 2, xs, <<p>>, <<c[4], c[5]>>)
=======================================================================
