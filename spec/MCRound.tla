----------------------------- MODULE MCRound -----------------------------
(* Cross-examination of the constructive rounding rule RoundMag against   *)
(* its declarative statement, on every toy format and on EVERY dyadic     *)
(* m * 2^e with an (N+3)-bit significand at every scale the format has    *)
(* (so: every tie, every near-tie, both saturations, every regime cut).   *)
EXTENDS PositOps, TLC
CONSTANTS NMin, NMax
VARIABLES N, ES, m, e
vars == <<N, ES, m, e>>

Init == /\ N \in NMin .. NMax
        /\ ES \in 0 .. 2
        /\ m = 0
        /\ e \in -(MaxScale(N, ES) + N + 5) .. (MaxScale(N, ES) + 2)
\* (initial states are computed by one thread; the significands are fanned out by Next so that
\* the workers share the evaluation)
Next == m = 0 /\ m' \in 1 .. 2 ^ (N + 3) /\ UNCHANGED <<N, ES, e>>
Spec == Init /\ [][Next]_vars

M == FromInt(m)
R == RoundMag(N, ES, M, e, FALSE)

RoundIsCorrectB == IsCorrectRoundingMag(N, ES, M, e, R)
\* monotone: a larger input never rounds to a smaller pattern
RoundMonotoneB == Cmp(R, RoundMag(N, ES, Add(M, <<1>>), e, FALSE)) <= 0
\* sticky = "strictly between m and m+1 units": same as one more exact bit set
StickyMeaningB == BitLen(M) >= N =>
  /\ RoundMag(N, ES, M, e, TRUE) = RoundMag(N, ES, Add(Shl(M, 2), <<1>>), e - 2, FALSE)
  /\ RoundMag(N, ES, M, e, TRUE) = RoundMag(N, ES, Add(Shl(M, 2), <<3>>), e - 2, FALSE)
\* representable values round to themselves; decode/round are inverse
P == FromInt(m % (2 ^ N))
RoundTripB == (P # NaR(N)) => Round(N, ES, Val(N, ES, P)) = P
\* never zero, never NaR
NeverZeroOrNaRB == R # <<>> /\ ~Sign(N, R)
\* quotient and square-root roundings agree with the declarative rule too:
\* m*2^e / 3 and sqrt(m*2^e) -- compare with exact rational / squared tests
QuotOkB == LET x == Dy(FALSE, M, e) three == Dy(FALSE, <<3>>, 0)
              r == RoundQuot(N, ES, x, three)
          \* r correct for x/3  <=>  lo <= x/3 <= hi  <=>  3*lo <= x <= 3*hi (with parity at ties)
              lo == Val(N + 1, ES, Sub(Shl(r, 1), <<1>>))
              hi == Val(N + 1, ES, Add(Shl(r, 1), <<1>>))
              cl == DyCmp(DyMul(three, lo), x)  ch == DyCmp(x, DyMul(three, hi))
              mx == Val(N, ES, MaxPos(N))  mn == Val(N, ES, MinPos)
          IN IF DyCmp(x, DyMul(three, mx)) >= 0 THEN r = MaxPos(N)
             ELSE IF DyCmp(x, DyMul(three, mn)) <= 0 THEN r = MinPos
             ELSE cl <= 0 /\ (cl = 0 => Bit(r, 0) = 0) /\ (r = MaxPos(N) \/ (ch <= 0 /\ (ch = 0 => Bit(r, 0) = 0)))
SqrtOkB == LET x == Dy(FALSE, M, e)
              r == RoundSqrt(N, ES, x)
              lo == Val(N + 1, ES, Sub(Shl(r, 1), <<1>>))
              hi == Val(N + 1, ES, Add(Shl(r, 1), <<1>>))
              cl == DyCmp(DyMul(lo, lo), x)  ch == DyCmp(x, DyMul(hi, hi))
              mx == Val(N, ES, MaxPos(N))  mn == Val(N, ES, MinPos)
          IN IF DyCmp(x, DyMul(mx, mx)) >= 0 THEN r = MaxPos(N)
             ELSE IF DyCmp(x, DyMul(mn, mn)) <= 0 THEN r = MinPos
             ELSE cl <= 0 /\ (cl = 0 => Bit(r, 0) = 0) /\ (r = MaxPos(N) \/ (ch <= 0 /\ (ch = 0 => Bit(r, 0) = 0)))
RoundIsCorrect == m = 0 \/ RoundIsCorrectB
RoundMonotone == m = 0 \/ RoundMonotoneB
StickyMeaning == m = 0 \/ StickyMeaningB
RoundTrip == m = 0 \/ RoundTripB
NeverZeroOrNaR == m = 0 \/ NeverZeroOrNaRB
QuotOk == m = 0 \/ QuotOkB
SqrtOk == m = 0 \/ SqrtOkB
=======================================================================
