----------------------------- MODULE Posit -----------------------------
(* Posit formats (N bits, ES exponent bits): decoding of a bit pattern    *)
(* to its exact real value and THE rounding rule of the posit standard.   *)
(* Patterns are unsigned N-bit BigNats.  Exact reals are "dyadics":       *)
(*    [neg |-> BOOLEAN, m |-> BigNat, e |-> Int]   =  (-1)^neg * m * 2^e  *)
(* with m = <<>> for zero.  NaR is not a dyadic; operations test it first.*)
EXTENDS BigNat

-----------------------------------------------------------------------------
(* Dyadic arithmetic (exact) *)
DyZero == [neg |-> FALSE, m |-> <<>>, e |-> 0]
Dy(neg, m, e) == IF m = <<>> THEN DyZero ELSE [neg |-> neg, m |-> m, e |-> e]
DyIsZero(x) == x.m = <<>>
DyNeg(x) == IF DyIsZero(x) THEN x ELSE [x EXCEPT !.neg = ~x.neg]
DyAbs(x) == [x EXCEPT !.neg = FALSE]
DyMul(x, y) == IF DyIsZero(x) \/ DyIsZero(y) THEN DyZero
               ELSE Dy(x.neg # y.neg, Mul(x.m, y.m), x.e + y.e)
DyAdd(x, y) ==
  IF DyIsZero(x) THEN y ELSE IF DyIsZero(y) THEN x
  ELSE LET e  == IF x.e < y.e THEN x.e ELSE y.e
           mx == Shl(x.m, x.e - e)
           my == Shl(y.m, y.e - e)
       IN IF x.neg = y.neg THEN Dy(x.neg, Add(mx, my), e)
          ELSE LET c == Cmp(mx, my) IN
               IF c = 0 THEN DyZero
               ELSE IF c > 0 THEN Dy(x.neg, Sub(mx, my), e)
               ELSE Dy(y.neg, Sub(my, mx), e)
DySub(x, y) == DyAdd(x, DyNeg(y))
\* compare magnitudes
DyCmpMag(x, y) ==
  IF DyIsZero(x) THEN (IF DyIsZero(y) THEN 0 ELSE -1)
  ELSE IF DyIsZero(y) THEN 1
  ELSE LET e == IF x.e < y.e THEN x.e ELSE y.e
       IN Cmp(Shl(x.m, x.e - e), Shl(y.m, y.e - e))
\* -1, 0, 1
DyCmp(x, y) ==
  IF DyIsZero(x) /\ DyIsZero(y) THEN 0
  ELSE IF DyIsZero(x) THEN (IF y.neg THEN 1 ELSE -1)
  ELSE IF DyIsZero(y) THEN (IF x.neg THEN -1 ELSE 1)
  ELSE IF x.neg /\ ~y.neg THEN -1
  ELSE IF ~x.neg /\ y.neg THEN 1
  ELSE IF x.neg THEN -DyCmpMag(x, y) ELSE DyCmpMag(x, y)
DyFromNat(neg, n) == Dy(neg, n, 0)
DyOne == [neg |-> FALSE, m |-> <<1>>, e |-> 0]
\* scale = floor(log2 |x|), x # 0
DyScale(x) == x.e + BitLen(x.m) - 1

-----------------------------------------------------------------------------
(* Patterns *)
NaR(N) == Pow2(N - 1)
IsNaR(N, p) == p = Pow2(N - 1)
IsZero(p) == p = <<>>
Sign(N, p) == Bit(p, N - 1) = 1
Neg(N, p) == IF p = <<>> THEN p ELSE Sub(Pow2(N), p)
Abs(N, p) == IF Sign(N, p) THEN Neg(N, p) ELSE p
MaxPos(N) == Sub(Pow2(N - 1), <<1>>)
MinPos == <<1>>
IsPattern(N, p) == BitLen(p) <= N
\* signed integer reading of a pattern (order isomorphism, see MCOrder): returns <<neg, mag>>
MaxScale(N, ES) == (N - 2) * 2 ^ ES

RECURSIVE Run(_, _, _)
Run(p, i, r0) == IF i < 0 THEN 0 ELSE IF Bit(p, i) = r0 THEN 1 + Run(p, i - 1, r0) ELSE 0

Field(p, hi, lo) == IF hi < lo THEN <<>> ELSE Low(Shr(p, lo), hi - lo + 1)

\* mag: a pattern with the sign bit clear, not zero
DecodeMag(N, ES, mag) ==
  LET r0   == Bit(mag, N - 2)
      run  == Run(mag, N - 2, r0)
      k    == IF r0 = 1 THEN run - 1 ELSE -run
      nrem == IF N - 2 - run < 0 THEN 0 ELSE N - 2 - run
      ne   == IF nrem < ES THEN nrem ELSE ES
      nf   == nrem - ne
      ebits == ToInt(Field(mag, nrem - 1, nrem - ne)) * 2 ^ (ES - ne)
      f    == Field(mag, nf - 1, 0)
  IN [m |-> Add(Pow2(nf), f), e |-> k * 2 ^ ES + ebits - nf]

\* exact value of a non-NaR pattern
Val(N, ES, p) ==
  IF p = <<>> THEN DyZero
  ELSE LET d == DecodeMag(N, ES, Abs(N, p)) IN [neg |-> Sign(N, p), m |-> d.m, e |-> d.e]

-----------------------------------------------------------------------------
(* The rounding rule.  |x| = (m * 2^e) (+ something in (0, 2^e) if sticky),  *)
(* m # 0.  Write the unbounded encoding regime|exponent|fraction, keep N-1   *)
(* bits, round to nearest, ties to the even encoding; saturate; never zero.  *)
RoundMag(N, ES, m, e, sticky) ==
  LET L == BitLen(m)
      s == e + L - 1
  IN IF s >= MaxScale(N, ES) THEN MaxPos(N)
     ELSE IF s < -MaxScale(N, ES) THEN MinPos
     ELSE
       LET useedlog == 2 ^ ES
           k  == IF s >= 0 THEN s \div useedlog ELSE -((-s + useedlog - 1) \div useedlog)
           ex == s - k * useedlog
           reglen == IF k >= 0 THEN k + 2 ELSE -k + 1
           regbits == IF k >= 0 THEN Sub(Pow2(k + 2), <<2>>) ELSE <<1>>
           frac == Sub(m, Pow2(L - 1))
           T == Add(Shl(Add(Shl(regbits, ES), FromInt(ex)), L - 1), frac)
           R == reglen + ES + (L - 1)
           cut == R - (N - 1)
       IN IF cut <= 0 THEN Shl(T, -cut)
          ELSE
            LET u  == Shr(T, cut)
                g  == Bit(T, cut - 1)
                st == sticky \/ LowNonZero(T, cut - 1)
                up == g = 1 /\ (st \/ Bit(u, 0) = 1)
                r  == IF up THEN Add(u, <<1>>) ELSE u
            IN IF r = <<>> THEN MinPos ELSE r

\* x a dyadic; sticky says the true magnitude is strictly above |x| by less than one unit of 2^x.e
RoundSticky(N, ES, x, sticky) ==
  IF DyIsZero(x) THEN <<>>
  ELSE LET r == RoundMag(N, ES, x.m, x.e, sticky) IN IF x.neg THEN Neg(N, r) ELSE r
Round(N, ES, x) == RoundSticky(N, ES, x, FALSE)

\* x / y for dyadics, y # 0, rounded once: quotient to >= N+3 significant bits, remainder as sticky
RoundQuot(N, ES, x, y) ==
  IF DyIsZero(x) THEN <<>>
  ELSE LET d  == BitLen(y.m) - BitLen(x.m) + N + 3
           s  == IF d > 0 THEN d ELSE 0
           qr == DivMod(Shl(x.m, s), y.m)
       IN RoundSticky(N, ES, Dy(x.neg # y.neg, qr[1], x.e - y.e - s), qr[2] # <<>>)

\* sqrt(x), x > 0, rounded once
RoundSqrt(N, ES, x) ==
  LET want == 2 * (N + 3) - BitLen(x.m)
      s0 == IF want > 0 THEN want ELSE 0
      s  == IF (x.e - s0) % 2 = 0 THEN s0 ELSE s0 + 1
      M  == Shl(x.m, s)
      r  == ISqrt(M)
  IN RoundSticky(N, ES, Dy(FALSE, r, (x.e - s) \div 2), Mul(r, r) # M)

-----------------------------------------------------------------------------
(* Declarative statement of the same rule (used by MCRound to cross-examine   *)
(* RoundMag): rho is a correct rounding of |x| = m*2^e (no sticky) iff ...     *)
\* value of the (N+1)-bit pattern q in format (N+1, ES)
IsCorrectRoundingMag(N, ES, m, e, rho) ==
  LET x  == Dy(FALSE, m, e)
      mx == Val(N, ES, MaxPos(N))
      mn == Val(N, ES, MinPos)
  IN /\ rho # <<>> /\ ~Sign(N, rho) /\ IsPattern(N, rho)
     /\ IF DyCmp(x, mx) >= 0 THEN rho = MaxPos(N)
        ELSE IF DyCmp(x, mn) <= 0 THEN rho = MinPos
        ELSE LET lo == Val(N + 1, ES, Sub(Shl(rho, 1), <<1>>))
                 hi == Val(N + 1, ES, Add(Shl(rho, 1), <<1>>))
                 cl == DyCmp(lo, x)
                 ch == DyCmp(x, hi)
                 even == Bit(rho, 0) = 0
             IN /\ cl <= 0 /\ (cl = 0 => even)
                /\ (rho = MaxPos(N) \/ (ch <= 0 /\ (ch = 0 => even)))
=======================================================================
