SPECIFICATION Spec
CONSTANTS NMin = 2
          NMax = 8
INVARIANT Laws Laws1
CHECK_DEADLOCK FALSE
