----------------------------- MODULE AlgoPx -----------------------------
(* Algorithm-level specification of the generic-width multiply           *)
(* (PxE2<N>::mul, src/pxe2/ops.rs): a transcription of WHAT THE CODE      *)
(* DOES -- words left-aligned in 32 bits, the regime computed by          *)
(* calculate_regime, the 64-bit significand product, the width-dependent  *)
(* rounding tail with its three branches (reg+4 <= N, reg = N-3,          *)
(* reg = N-2) -- as opposed to Posit!RoundMag, which says what the result *)
(* must be.  MCAlgo checks that the former refines the latter for EVERY   *)
(* width N in 3..32 (the class of defects the pinned tree had in these    *)
(* tails, `N-4` / `28-reg`, is a design-level fact about this algorithm). *)
(* Trace!GoodAlgo checks that the code refines the former on recorded     *)
(* px2.mul events.  All words are BigNats (TLC integers are 32-bit).      *)
EXTENDS Posit

W31 == Sub(Pow2(31), <<1>>)                              \* 0x7FFF_FFFF
TopBits(w, N) == Shl(Shr(w, 32 - N), 32 - N)              \* w & Self::mask()
ZeroShr(w, n) == IF n >= 32 THEN <<>> ELSE Shr(w, n)      \* u32_zero_shr
BOr(x, y) == IF x = 1 \/ y THEN 1 ELSE 0

\* calculate_regime(k) -> (regime word, regime sign, reg)
CalcRegime(k) ==
  IF k < 0 THEN [bits |-> ZeroShr(Pow2(30), -k), s |-> FALSE, reg |-> -k]
  ELSE [bits |-> Sub(W31, ZeroShr(W31, k + 1)), s |-> TRUE, reg |-> k + 1]

\* the rounding tail of mul.  F = frac64_z & 0x0FFF_FFFF_FFFF_FFFF (60 fraction bits under the
\* hidden bit at position 60), k / ex the regime value and the 2-bit exponent of the product.
\* Returns the 32-bit word u_z (the N-bit pattern is its top N bits).
MulTailE2(N, k, ex, F) ==
  LET c == CalcRegime(k) IN
  IF c.reg > N - 2 THEN (IF c.s THEN TopBits(W31, N) ELSE Pow2(32 - N))
  ELSE
    LET f64  == Shr(F, c.reg)
        wide == c.reg + 4 <= N
        bnp1 == IF wide THEN Bit(f64, 63 - N) = 1
                ELSE IF c.reg = N - 2 THEN (ex \div 2) % 2 = 1
                ELSE ex % 2 = 1
        more == IF wide THEN LowNonZero(f64, 63 - N)
                ELSE (c.reg = N - 2 /\ ex % 2 = 1) \/ f64 # <<>>
        ex2  == IF wide THEN ex ELSE IF c.reg = N - 2 THEN 0 ELSE (ex \div 2) * 2
        fa   == IF wide THEN TopBits(Shr(f64, 32), N) ELSE <<>>
        exw  == IF c.reg <= 28 THEN Shl(FromInt(ex2), 28 - c.reg) ELSE FromInt(ex2 \div (2 ^ (c.reg - 28)))
        u    == Add(Add(c.bits, exw), fa)
    IN IF bnp1 THEN Add(u, Shl(FromInt(BOr(Bit(u, 32 - N), more)), 32 - N)) ELSE u

\* separate_bits of a positive N-bit pattern held left-aligned: regime value, 2-bit exponent
\* (bits cut off by the pattern's end read as zero), 31-bit significand word 1.f * 2^30
Sep(N, a) ==
  LET d  == DecodeMag(N, 2, a)
      nf == BitLen(d.m) - 1
      s  == d.e + nf
      k  == IF s >= 0 THEN s \div 4 ELSE -((-s + 3) \div 4)
  IN [k |-> k, ex |-> s - 4 * k, f |-> Shl(d.m, 30 - nf)]

\* |a| * |b| for non-zero, non-NaR magnitudes a, b (N >= 3); returns the N-bit pattern
MulMagE2(N, a, b) ==
  LET x == Sep(N, a)  y == Sep(N, b)
      k0 == x.k + y.k
      e0 == x.ex + y.ex
      P0 == Mul(x.f, y.f)
      k1 == IF e0 > 3 THEN k0 + 1 ELSE k0
      e1 == IF e0 > 3 THEN e0 - 4 ELSE e0
      rc == Shr(P0, 61) # <<>>
      e2 == IF rc THEN e1 + 1 ELSE e1
      k3 == IF e2 > 3 THEN k1 + 1 ELSE k1
      e3 == IF e2 > 3 THEN e2 - 4 ELSE e2
      P  == IF rc THEN Shr(P0, 1) ELSE P0
  IN Shr(MulTailE2(N, k3, e3, Low(P, 60)), 32 - N)

\* full multiply on N-bit patterns, N >= 3 (N = 2 is a separate two-line branch in the code)
AlgoMulE2(N, a, b) ==
  IF IsNaR(N, a) \/ IsNaR(N, b) THEN NaR(N)
  ELSE IF a = <<>> \/ b = <<>> THEN <<>>
  ELSE LET r == MulMagE2(N, Abs(N, a), Abs(N, b))
       IN IF Sign(N, a) # Sign(N, b) THEN Neg(N, r) ELSE r

-----------------------------------------------------------------------------
(* add_mags (PxE2<N>, src/pxe2/ops.rs): the sum of two magnitudes of the same sign.           *)
(* a >= b > 0 as N-bit patterns.  Significands sit at bit 62 of a 64-bit word, the smaller    *)
(* one is shifted right by the scale difference (bits pushed out below bit 0 are dropped, a   *)
(* difference above 63 gives 0), bit 63 of the sum is the carry.  The tail differs from mul's: *)
(* the fraction is shifted by reg + 2, the narrow branches test the UPPER word only and do    *)
(* not record the cut-off low exponent bit as sticky (unreachable: MCAlgo!PairsOk), and the   *)
(* low-word sticky test is made only when the rounding bit is set.                            *)
AddTailE2(N, k, ex, S62) ==
  LET c == CalcRegime(k) IN
  IF c.reg > N - 2 THEN (IF c.s THEN TopBits(W31, N) ELSE Pow2(32 - N))
  ELSE
    LET f64  == Shr(S62, c.reg + 2)
        fa0  == Shr(f64, 32)
        wide == c.reg + 4 <= N
        bnp1 == IF wide THEN Bit(f64, 63 - N) = 1
                ELSE IF c.reg = N - 2 THEN (ex \div 2) % 2 = 1
                ELSE ex % 2 = 1
        more0 == ~wide /\ fa0 # <<>>
        ex2  == IF wide THEN ex ELSE IF c.reg = N - 2 THEN 0 ELSE (ex \div 2) * 2
        fa   == IF wide THEN TopBits(fa0, N) ELSE <<>>
        exw  == IF c.reg <= 28 THEN Shl(FromInt(ex2), 28 - c.reg) ELSE FromInt(ex2 \div (2 ^ (c.reg - 28)))
        u    == Add(Add(c.bits, exw), fa)
        more == more0 \/ LowNonZero(f64, 63 - N)
    IN IF bnp1 THEN Add(u, Shl(FromInt(BOr(Bit(u, 32 - N), more)), 32 - N)) ELSE u

AddMagsE2(N, a, b) ==
  LET x == Sep(N, a)  y == Sep(N, b)
      sr == 4 * (x.k - y.k) + x.ex - y.ex
      fb == IF sr > 63 THEN <<>> ELSE Shr(Shl(y.f, 32), sr)
      S0 == Add(Shl(x.f, 32), fb)
      rc == Bit(S0, 63) = 1
      e1 == IF rc THEN x.ex + 1 ELSE x.ex
      k2 == IF e1 > 3 THEN x.k + 1 ELSE x.k
      e2 == IF e1 > 3 THEN e1 - 4 ELSE e1
      S  == IF rc THEN Shr(S0, 1) ELSE S0
  IN Shr(AddTailE2(N, k2, e2, Low(S, 62)), 32 - N)

\* a + b for non-zero, non-NaR operands of the same sign (the only case that reaches add_mags from `add`)
AlgoAddSameE2(N, a, b) ==
  LET ma == Abs(N, a)  mb == Abs(N, b)
      r  == IF Cmp(ma, mb) >= 0 THEN AddMagsE2(N, ma, mb) ELSE AddMagsE2(N, mb, ma)
  IN IF Sign(N, a) THEN Neg(N, r) ELSE r
AddSamePre(N, a, b) == a # <<>> /\ b # <<>> /\ ~IsNaR(N, a) /\ ~IsNaR(N, b) /\ Sign(N, a) = Sign(N, b)

-----------------------------------------------------------------------------
(* sub_mags: the difference of two magnitudes, a > b > 0.  Same alignment as add_mags, but a   *)
(* scale difference above 63 returns a unchanged; the difference is renormalised by the code's *)
(* two loops (`<<= 4` with k -= 1 while nothing at or above bit 59, then `<<= 1` with the      *)
(* exponent borrowed down until bit 62 is set), given here in closed form; the tail is         *)
(* add_mags's.                                                                                 *)
SubMagsE2(N, a, b) ==
  LET x == Sep(N, a)  y == Sep(N, b)
      sr == 4 * (x.k - y.k) + x.ex - y.ex
  IN IF sr > 63 THEN a
     ELSE
       LET D0 == Sub(Shl(x.f, 32), Shr(Shl(y.f, 32), sr))
           L  == BitLen(D0)
           n4 == IF L - 1 < 59 THEN (63 - L) \div 4 ELSE 0          \* iterations of the first loop
           n1 == 62 - (L - 1 + 4 * n4)                              \* iterations of the second loop
           s  == 4 * (x.k - n4) + x.ex - n1
           k2 == IF s >= 0 THEN s \div 4 ELSE -((-s + 3) \div 4)
           D  == Shl(D0, 4 * n4 + n1)
       IN Shr(AddTailE2(N, k2, s - 4 * k2, Low(D, 62)), 32 - N)

\* `add` and `sub` with their heads (zero is tested before NaR in add, after it in sub) and the dispatch on signs
AlgoAddE2(N, a, b) ==
  IF a = <<>> \/ b = <<>> THEN Add(a, b)                             \* ui_a | ui_b, one of them zero
  ELSE IF IsNaR(N, a) \/ IsNaR(N, b) THEN NaR(N)
  ELSE IF Sign(N, a) = Sign(N, b) THEN AlgoAddSameE2(N, a, b)
  ELSE LET ma == Abs(N, a)  mb == Abs(N, b)  c == Cmp(ma, mb) IN
       IF c = 0 THEN <<>>
       ELSE LET r  == IF c > 0 THEN SubMagsE2(N, ma, mb) ELSE SubMagsE2(N, mb, ma)
                sg == IF c > 0 THEN Sign(N, a) ELSE ~Sign(N, a)
            IN IF sg THEN Neg(N, r) ELSE r
AlgoSubE2(N, a, b) ==
  IF IsNaR(N, a) \/ IsNaR(N, b) THEN NaR(N)
  ELSE IF a = <<>> \/ b = <<>> THEN Add(a, Neg(N, b))
  ELSE AlgoAddE2(N, a, Neg(N, b))

-----------------------------------------------------------------------------
(* div: the 61-bit dividend 1.f * 2^60 by the 31-bit divisor significand (lldiv), quotient with *)
(* its hidden bit at position 30 or 29 (then shifted up, the exponent borrowing from the regime), *)
(* a 32-bit tail of its own: the 30 fraction bits are tested in place (masks shifted by           *)
(* N - reg - 2) and the remainder is one more sticky source.                                      *)
DivTailE2(N, k, ex, F, remnz) ==
  LET c == CalcRegime(k) IN
  IF c.reg > N - 2 THEN (IF c.s THEN TopBits(W31, N) ELSE Pow2(32 - N))
  ELSE
    LET wide == c.reg + 4 <= N
        sh   == N - c.reg - 2
        bnp1 == IF wide THEN Bit(F, 31 - sh) = 1
                ELSE IF c.reg = N - 2 THEN (ex \div 2) % 2 = 1
                ELSE ex % 2 = 1
        more == (IF wide THEN LowNonZero(F, 31 - sh)
                 ELSE (c.reg = N - 2 /\ ex % 2 = 1) \/ F # <<>>) \/ remnz
        ex2  == IF wide THEN ex ELSE IF c.reg = N - 2 THEN 0 ELSE (ex \div 2) * 2
        fa   == IF wide THEN TopBits(ZeroShr(F, c.reg + 2), N) ELSE <<>>
        exw  == IF c.reg <= 28 THEN Shl(FromInt(ex2), 28 - c.reg) ELSE FromInt(ex2 \div (2 ^ (c.reg - 28)))
        u    == Add(Add(c.bits, exw), fa)
    IN IF bnp1 THEN Add(u, Shl(FromInt(BOr(Bit(u, 32 - N), more)), 32 - N)) ELSE u

DivMagE2(N, a, b) ==
  LET x == Sep(N, a)  y == Sep(N, b)
      qr == DivMod(Shl(x.f, 30), y.f)
      e0 == x.ex - y.ex
      k1 == IF e0 < 0 THEN x.k - y.k - 1 ELSE x.k - y.k
      e1 == IF e0 < 0 THEN e0 + 4 ELSE e0
      rc == Shr(qr[1], 30) # <<>>
      k2 == IF ~rc /\ e1 = 0 THEN k1 - 1 ELSE k1
      e2 == IF rc THEN e1 ELSE IF e1 = 0 THEN 3 ELSE e1 - 1
      Q  == IF rc THEN qr[1] ELSE Shl(qr[1], 1)
  IN Shr(DivTailE2(N, k2, e2, Low(Q, 30), qr[2] # <<>>), 32 - N)

AlgoDivE2(N, a, b) ==
  IF IsNaR(N, a) \/ IsNaR(N, b) \/ b = <<>> THEN NaR(N)
  ELSE IF a = <<>> THEN <<>>
  ELSE LET r == DivMagE2(N, Abs(N, a), Abs(N, b))
       IN IF Sign(N, a) # Sign(N, b) THEN Neg(N, r) ELSE r

-----------------------------------------------------------------------------
(* PxE1<N>::mul (src/pxe1/ops.rs): one exponent bit.  Same word layout and product; the        *)
(* exponent arithmetic is done with xor (`exp ^= 2`, `exp ^= 1`), the fraction is shifted by    *)
(* reg - 1, and the tail has two branches only (reg /= N-2: masks at bit 63-N; reg = N-2: the   *)
(* exponent bit is the rounding bit and the whole fraction is sticky).                           *)
SepE1(N, a) ==
  LET d  == DecodeMag(N, 1, a)
      nf == BitLen(d.m) - 1
      s  == d.e + nf
      k  == IF s >= 0 THEN s \div 2 ELSE -((-s + 1) \div 2)
  IN [k |-> k, ex |-> s - 2 * k, f |-> Shl(d.m, 30 - nf)]

MulTailE1(N, k, ex, F) ==
  LET c == CalcRegime(k) IN
  IF c.reg > N - 2 THEN (IF c.s THEN TopBits(W31, N) ELSE Pow2(32 - N))
  ELSE
    LET f64  == Shr(F, c.reg - 1)
        wide == c.reg # N - 2
        bnp1 == IF wide THEN Bit(f64, 63 - N) = 1 ELSE ex # 0
        more == IF wide THEN LowNonZero(f64, 63 - N) ELSE f64 # <<>>
        ex2  == IF wide THEN ex ELSE 0
        fa   == IF wide THEN TopBits(Shr(f64, 32), N) ELSE <<>>
        exw  == IF c.reg <= 29 THEN Shl(FromInt(ex2), 29 - c.reg) ELSE <<>>
        u    == Add(Add(c.bits, exw), fa)
    IN IF bnp1 THEN Add(u, Shl(FromInt(BOr(Bit(u, 32 - N), more)), 32 - N)) ELSE u

MulMagE1(N, a, b) ==
  LET x == SepE1(N, a)  y == SepE1(N, b)
      e0 == x.ex + y.ex
      k1 == IF e0 > 1 THEN x.k + y.k + 1 ELSE x.k + y.k
      e1 == IF e0 > 1 THEN e0 - 2 ELSE e0                 \* exp ^= 2 on 2 or 3 ... e0 is at most 2
      P0 == Mul(x.f, y.f)
      rc == Shr(P0, 61) # <<>>
      k2 == IF rc /\ e1 # 0 THEN k1 + 1 ELSE k1
      e2 == IF rc THEN 1 - e1 ELSE e1                     \* exp ^= 1
      P  == IF rc THEN Shr(P0, 1) ELSE P0
  IN Shr(MulTailE1(N, k2, e2, Low(P, 60)), 32 - N)

AlgoMulE1(N, a, b) ==
  IF IsNaR(N, a) \/ IsNaR(N, b) THEN NaR(N)
  ELSE IF a = <<>> \/ b = <<>> THEN <<>>
  ELSE LET r == MulMagE1(N, Abs(N, a), Abs(N, b))
       IN IF Sign(N, a) # Sign(N, b) THEN Neg(N, r) ELSE r
=======================================================================
