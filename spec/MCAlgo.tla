----------------------------- MODULE MCAlgo -----------------------------
(* AlgoPx (what the code does) refines Posit/PositOps (what it must       *)
(* return):                                                               *)
(*  Tail  -- for EVERY width N in 3..32, every regime value the product   *)
(*           can have, every exponent and every fraction of a lattice     *)
(*           built around the rounding position (lsb, guard, the bit      *)
(*           below, the lowest bit that survives the `>> reg` shift, the  *)
(*           bit at the 32-bit truncation frac64_z >> 32, the top bit):   *)
(*           MulTailE2 = RoundMag of the same magnitude;                  *)
(*  Pairs -- for every operand pair of the widths NMin..NMax:             *)
(*           AlgoMulE2 = PMul;                                            *)
(*  Shift -- the precondition that makes the tail's `>> reg` and the      *)
(*           `>> 1` of the carry case lossless: the significand product   *)
(*           of any two N-bit operands has at least reg + 1 trailing zero *)
(*           bits (by field lengths, all N in 3..32, all regime pairs).   *)
EXTENDS AlgoPx, PositOps, TLC
CONSTANTS NMin, NMax, TailNMax, LatN
VARIABLES mode, N, k, j
vars == <<mode, N, k, j>>

Init == \/ /\ mode = "tail" /\ N \in 3 .. TailNMax /\ k \in -(N - 1) .. (N - 1) /\ j = -1
        \/ /\ mode = "pairs" /\ N \in NMin .. NMax /\ k \in 1 .. 2 ^ (N - 1) - 1 /\ j = -1
        \/ /\ mode = "shift" /\ N \in 3 .. 32 /\ k \in -(N - 2) .. (N - 2) /\ j = -1
        \/ /\ mode = "dtail" /\ N \in 3 .. TailNMax /\ k \in -(N - 1) .. (N - 1) /\ j = -1
        \/ /\ mode = "atail" /\ N \in 3 .. TailNMax /\ k \in -(N - 1) .. (N - 1) /\ j = -1
        \/ /\ mode = "lat" /\ N \in LatN /\ k \in 0 .. 4 * (N - 1) - 1 /\ j = -1
Next == /\ j = -1
        /\ \/ mode = "tail" /\ j' \in 0 .. 255
           \/ mode = "pairs" /\ j' \in 0 .. 2 ^ N - 1
           \/ mode = "shift" /\ j' \in 0 .. 2 * (N - 2)
           \/ mode = "lat" /\ j' \in 0 .. 4 * (N - 1) - 1
           \/ mode = "dtail" /\ j' \in 0 .. 511
           \/ mode = "atail" /\ j' \in 0 .. 255
        /\ UNCHANGED <<mode, N, k>>
Spec == Init /\ [][Next]_vars

\* ---- Tail: j encodes ex (2 bits) and a subset of six lattice positions
Reg == IF k < 0 THEN -k ELSE k + 1
G == 63 - N + Reg                       \* position of the guard bit in F when fraction bits are kept
Pos == <<G + 1, G, G - 1, Reg, 31 + Reg, 59>>
PosOk(i) == Pos[i] >= Reg /\ Pos[i] <= 59 /\ \A h \in 1 .. i - 1 : Pos[h] # Pos[i]
RECURSIVE SumF(_)
SumF(i) == IF i = 0 THEN <<>>
           ELSE IF (j \div 4) \div (2 ^ (i - 1)) % 2 = 1 /\ PosOk(i) THEN Add(SumF(i - 1), Pow2(Pos[i])) ELSE SumF(i - 1)
TailB == LET ex == j % 4
             F  == SumF(6)
             m  == Add(Pow2(60), F)
             w  == MulTailE2(N, k, ex, F)
         IN /\ Shr(w, 32 - N) = RoundMag(N, 2, m, 4 * k + ex - 60, FALSE)
            /\ Low(w, 32 - N) = <<>>          \* canonical word: nothing below the N-bit pattern

\* ---- Pairs: k is the magnitude of a, j the full pattern b
PairsB == LET a == FromInt(k)  b == FromInt(j)
          IN /\ AlgoMulE2(N, a, b) = PMul(N, 2, a, b)
             /\ AlgoMulE2(N, Neg(N, a), b) = PMul(N, 2, Neg(N, a), b)
             /\ AlgoAddE2(N, a, b) = PAdd(N, 2, a, b) /\ AlgoAddE2(N, Neg(N, a), b) = PAdd(N, 2, Neg(N, a), b)
             /\ AlgoSubE2(N, a, b) = PSub(N, 2, a, b) /\ AlgoSubE2(N, Neg(N, a), b) = PSub(N, 2, Neg(N, a), b)
             /\ AlgoAddE2(N, <<>>, b) = PAdd(N, 2, <<>>, b) /\ AlgoAddE2(N, b, <<>>) = PAdd(N, 2, b, <<>>)
             /\ AlgoSubE2(N, <<>>, b) = PSub(N, 2, <<>>, b) /\ AlgoSubE2(N, b, <<>>) = PSub(N, 2, b, <<>>)
             /\ AlgoMulE2(N, <<>>, b) = PMul(N, 2, <<>>, b) /\ AlgoMulE2(N, b, <<>>) = PMul(N, 2, b, <<>>)
             /\ AlgoDivE2(N, <<>>, b) = PDiv(N, 2, <<>>, b) /\ AlgoDivE2(N, b, <<>>) = PDiv(N, 2, b, <<>>)
             /\ AlgoDivE2(N, a, b) = PDiv(N, 2, a, b) /\ AlgoDivE2(N, Neg(N, a), b) = PDiv(N, 2, Neg(N, a), b)
             /\ AlgoMulE1(N, a, b) = PMul(N, 1, a, b) /\ AlgoMulE1(N, Neg(N, a), b) = PMul(N, 1, Neg(N, a), b)
             /\ AlgoMulE1(N, <<>>, b) = PMul(N, 1, <<>>, b) /\ AlgoMulE1(N, b, <<>>) = PMul(N, 1, b, <<>>)
             /\ (AddSamePre(N, a, b) => AlgoAddSameE2(N, a, b) = PAdd(N, 2, a, b))
             /\ (AddSamePre(N, Neg(N, a), b) => AlgoAddSameE2(N, Neg(N, a), b) = PAdd(N, 2, Neg(N, a), b))

\* ---- Shift: k = regime value of a, j - (N-2) = regime value of b; field lengths only
RegLen(kk) == IF kk < 0 THEN -kk + 1 ELSE kk + 2
NF(kk) == LET r == N - 1 - RegLen(kk) - 2 IN IF r < 0 THEN 0 ELSE r
ShiftB == LET kb == j - (N - 2)
              tz == (30 - NF(k)) + (30 - NF(kb))          \* trailing zeros of the product, at least
              kz == k + kb + 2                             \* largest regime value after both carries
              rg(kk) == IF kk < 0 THEN -kk ELSE kk + 1
          IN \A kk \in (k + kb) .. kz : rg(kk) > N - 2 \/ tz >= rg(kk) + 1

\* ---- Lat: wide formats, operands from a lattice of 4(N-1) magnitudes: a lone bit, a lone bit + lsb,
\* a run of ones from the top, the same minus one (every regime, long carry chains, far-apart scales)
LatPat(i) == LET q == i \div 4  r == i % 4 IN
  IF r = 0 THEN Pow2(q) ELSE IF r = 1 THEN Add(Pow2(q), <<1>>)
  ELSE IF r = 2 THEN Sub(Pow2(N - 1), Pow2(q)) ELSE Sub(Sub(Pow2(N - 1), Pow2(q)), <<1>>)
LatB == LET a == LatPat(k)  b == LatPat(j)
        IN /\ AlgoMulE2(N, a, b) = PMul(N, 2, a, b)
           /\ AlgoMulE2(N, Neg(N, a), b) = PMul(N, 2, Neg(N, a), b)
           /\ AlgoAddSameE2(N, a, b) = PAdd(N, 2, a, b)
           /\ AlgoSubE2(N, a, b) = PSub(N, 2, a, b)
           /\ AlgoDivE2(N, a, b) = PDiv(N, 2, a, b) /\ AlgoDivE2(N, b, Neg(N, a)) = PDiv(N, 2, b, Neg(N, a))
           /\ AlgoMulE1(N, a, b) = PMul(N, 1, a, b) /\ AlgoMulE1(N, Neg(N, a), b) = PMul(N, 1, Neg(N, a), b)
           /\ AlgoAddE2(N, Neg(N, a), b) = PAdd(N, 2, Neg(N, a), b)
           /\ AlgoAddSameE2(N, Neg(N, a), Neg(N, b)) = PAdd(N, 2, Neg(N, a), Neg(N, b))
LatOk == j = -1 \/ mode # "lat" \/ LatB

\* ---- DTail: the 32-bit tail of div for every width: j encodes ex (2 bits), the remainder flag and a subset of six
\* positions of the 30-bit quotient fraction (lsb, guard, the bit below, bit 0, the lowest bit that survives
\* `>> reg + 2`, the top bit)
DG == 33 - N + Reg
DPos == <<DG + 1, DG, DG - 1, 0, Reg + 2, 29>>
DPosOk(i) == DPos[i] >= 0 /\ DPos[i] <= 29 /\ \A h \in 1 .. i - 1 : DPos[h] # DPos[i]
RECURSIVE DSumF(_)
DSumF(i) == IF i = 0 THEN <<>>
            ELSE IF (j \div 8) \div (2 ^ (i - 1)) % 2 = 1 /\ DPosOk(i) THEN Add(DSumF(i - 1), Pow2(DPos[i])) ELSE DSumF(i - 1)
DTailB == LET ex == j % 4
              rz == (j \div 4) % 2 = 1
              F  == DSumF(6)
              w  == DivTailE2(N, k, ex, F, rz)
          IN /\ Shr(w, 32 - N) = RoundMag(N, 2, Add(Pow2(30), F), 4 * k + ex - 30, rz)
             /\ Low(w, 32 - N) = <<>>
DTailOk == j = -1 \/ mode # "dtail" \/ DTailB

\* ---- ATail: the tail shared by add_mags and sub_mags for every width.  S62 = the 62 bits under the hidden bit
\* (position 62); the fraction is shifted by reg + 2, so the guard bit of S62 sits at 65 - N + reg.
\* The tail is NOT a correct rounding everywhere: with a regime of N-2 bits, exponent 3 and a zero fraction
\* (the value 2^(4k+3), three quarters of the way to the next pattern) it sees a tie, because the cut-off low
\* exponent bit is not recorded as sticky (mul and div do record it).  ATailDeviates states that deviation,
\* ATailOk that it is the only one; PairsOk / LatOk show no sum or difference of two posits reaches it
\* (an operand with that regime has no exponent bits, so it is 2^(4k) and the sum stays below 2^(4k+2)).
AG == 65 - N + Reg
APos == <<AG + 1, AG, AG - 1, Reg + 2, 34 + Reg, 61>>
APosOk(i) == APos[i] >= 0 /\ APos[i] <= 61 /\ \A h \in 1 .. i - 1 : APos[h] # APos[i]
RECURSIVE ASumF(_)
ASumF(i) == IF i = 0 THEN <<>>
            ELSE IF (j \div 4) \div (2 ^ (i - 1)) % 2 = 1 /\ APosOk(i) THEN Add(ASumF(i - 1), Pow2(APos[i])) ELSE ASumF(i - 1)
ATailGap(ex, F) == Reg = N - 2 /\ ex = 3 /\ F = <<>>
ATailB == LET ex == j % 4
              F  == ASumF(6)
              w  == AddTailE2(N, k, ex, F)
              r  == RoundMag(N, 2, Add(Pow2(62), F), 4 * k + ex - 62, FALSE)
          IN /\ Low(w, 32 - N) = <<>>
             /\ ~ATailGap(ex, F) => Shr(w, 32 - N) = r
             /\ (ATailGap(ex, F) /\ k >= 0) => Shr(w, 32 - N) # r        \* the latent deviation, named
ATailOk == j = -1 \/ mode # "atail" \/ ATailB

TailOk  == j = -1 \/ mode # "tail"  \/ TailB
PairsOk == j = -1 \/ mode # "pairs" \/ PairsB
ShiftOk == j = -1 \/ mode # "shift" \/ ShiftB
=======================================================================
