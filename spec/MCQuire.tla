------------------------------ MODULE MCQuire ------------------------------
(* The quire as a state machine, model-checked over every history of up to  *)
(* MaxLen operations on a small term set, for a toy format and for Q8E0.     *)
(* hist is a history variable (the bag of signed terms since the last clear)*)
(* hidden from the state graph by VIEW, so histories reaching the same      *)
(* quire merge: the final state is a function of the bag, not of the order.  *)
EXTENDS Quire, TLC
CONSTANTS MaxLen, Fmts
VARIABLES f, q, hist, sawNaR, len
mv == <<f, q, hist, sawNaR, len>>
FmtsQuick == <<<<6, 1, 18>>, <<8, 0, 32>>>>
FmtsThorough == <<<<6, 1, 18>>, <<8, 0, 32>>, <<16, 1, 128>>>>
view == <<f, q, sawNaR, len>>

NN == Fmts[f][1]
EE == Fmts[f][2]
W == Fmts[f][3]
QF == QFrac(NN, EE)

\* term set: NaR, zero, +-minpos, +-maxpos, 1, and a value with a fraction
Terms == {NaR(NN), <<>>, MinPos, Neg(NN, MinPos), MaxPos(NN), Neg(NN, MaxPos(NN)), POne(NN),
          Add(POne(NN), Pow2(NN - 4)), Neg(NN, Add(POne(NN), <<1>>))}

Init == f \in DOMAIN Fmts /\ q = QZero /\ hist = <<>> /\ sawNaR = FALSE /\ len = 0

TermVal(a, b, sub) == LET t == DyMul(Val(NN, EE, a), Val(NN, EE, b)) IN IF sub THEN DyNeg(t) ELSE t
AddProd(a, b, sub) ==
  /\ q' = QAddProduct(W, QF, NN, EE, q, a, b, sub)
  /\ sawNaR' = (sawNaR \/ IsNaR(NN, a) \/ IsNaR(NN, b))
  /\ hist' = IF IsNaR(NN, a) \/ IsNaR(NN, b) THEN hist ELSE Append(hist, TermVal(a, b, sub))
AddPos(a, sub) ==
  /\ q' = QAddPosit(W, QF, NN, EE, q, a, sub)
  /\ sawNaR' = (sawNaR \/ IsNaR(NN, a))
  /\ hist' = IF IsNaR(NN, a) THEN hist ELSE Append(hist, TermVal(a, POne(NN), sub))
Negate == q' = QNeg(q) /\ hist' = [i \in 1 .. Len(hist) |-> DyNeg(hist[i])] /\ UNCHANGED sawNaR
Clear == q' = QZero /\ hist' = <<>> /\ sawNaR' = FALSE

Next == /\ len < MaxLen /\ len' = len + 1 /\ UNCHANGED f
        /\ \/ \E a \in Terms, b \in Terms, s \in BOOLEAN : AddProd(a, b, s)
           \/ \E a \in Terms, s \in BOOLEAN : AddPos(a, s)
           \/ Negate
           \/ Clear
Spec == Init /\ [][Next]_mv

RECURSIVE SumFrom(_, _)
SumFrom(h, i) == IF i > Len(h) THEN DyZero ELSE DyAdd(h[i], SumFrom(h, i + 1))

\* the quire holds exactly the sum of the terms fed to it (summed here in the opposite order)
Exact == DyCmp(q.s, SumFrom(hist, 1)) = 0
\* NaR is sticky until clear, and only a NaR operand produces it
NaRSticky == q.nar = sawNaR
\* observations while in range
Obs == q.inr =>
  /\ QIsZero(q) = (~sawNaR /\ DyIsZero(SumFrom(hist, 1)))
  /\ QIsNaR(q) = sawNaR
  /\ LET b == QBits(W, QF, q) IN BitLen(b) <= W /\ (LET r == QOfBits(W, QF, b) IN r.nar = q.nar /\ (q.nar \/ DyCmp(r.s, q.s) = 0))
  /\ (q.nar \/ QToPosit(NN, EE, q) = Round(NN, EE, SumFrom(hist, 1)))
  /\ (q.nar => QToPosit(NN, EE, q) = NaR(NN))
  /\ (~q.nar /\ ~DyIsZero(q.s) => QToPosit(NN, EE, q) # <<>> /\ ~IsNaR(NN, QToPosit(NN, EE, q)))
\* residual split: p1 + p2 + p3 approaches s, each step the rounding of the exact remainder
Split == (q.inr /\ ~q.nar) =>
  LET sp == QSplit(W, QF, NN, EE, q, 3)
      r1 == DySub(q.s, Val(NN, EE, sp[1]))
      r2 == DySub(r1, Val(NN, EE, sp[2]))
  IN /\ sp[1] = Round(NN, EE, q.s) /\ sp[2] = Round(NN, EE, r1) /\ sp[3] = Round(NN, EE, r2)
     \* (no claim that the remainder shrinks: where the regime cuts exponent bits a rounding error
     \*  can exceed the value, e.g. s just above a geometric midpoint)
     /\ (DyCmp(Val(NN, EE, sp[1]), q.s) = 0 => sp[2] = <<>> /\ sp[3] = <<>>)
\* a posit survives the trip through the quire
RoundTrip == \A a \in Terms : QToPosit(NN, EE, QFromPosit(W, QF, NN, EE, a)) = a
\* range bookkeeping: a quire built from < 2^(W-1-2*QF... ) terms of magnitude <= maxpos^2 is in range
InRange == len <= 4 => q.inr
=======================================================================
