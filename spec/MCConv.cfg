SPECIFICATION Spec
INVARIANT All
CHECK_DEADLOCK FALSE
