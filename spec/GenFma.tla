------------------------------ MODULE GenFma ------------------------------
(* T1 for the fused family: TLC enumerates every P8E0 first operand against  *)
(* a reduced lattice of second operands and addends (specials, every regime  *)
(* with fraction classes, both signs) and prints mul_add / mul_sub /         *)
(* sub_product events with the specification's result for replay.            *)
EXTENDS PositMachine, Json, TLC
VARIABLES a, b
gv == <<a, b, regs, qs>>
Set8 == {0, 128, 1, 127, 255, 129, 64, 192, 65, 63, 32, 96, 2, 126, 16, 112, 80, 48, 72, 56, 8, 120, 4, 124, 68, 60, 200, 184, 130, 254, 33, 95}
Init == a \in 0 .. 255 /\ b = -1 /\ regs = RegsInit /\ qs = QsInit
Next == b = -1 /\ b' \in Set8 /\ UNCHANGED <<a, regs, qs>>
Spec == Init /\ [][Next]_gv
P(x) == FromInt(x)
Ev(op, x, y, z) == [op |-> op, t |-> "p8", sp |-> "m", a |-> x, b |-> y, c |-> z, x_r |-> Fn(op, "m", 8, 0, <<x, y, z>>)]
Events == { Ev(op, P(a), P(b), P(c)) : op \in {"mul_add", "mul_sub", "sub_product"}, c \in Set8 }
Emit == b = -1 \/ PrintT("GEN" \o ToJson(Events))
=======================================================================
