------------------------------ MODULE GenConv ------------------------------
(* T1 for the conversions: every P16E1 pattern (and every P8E0 pattern) with *)
(* the specification's result of converting it to the other posit formats,   *)
(* to f32 / f64 and to the four integer types, for replay in the library.     *)
EXTENDS PositMachine, Json, TLC
VARIABLES k, j
gv == <<k, j, regs, qs>>
Init == k \in 0 .. 255 /\ j = -1 /\ regs = RegsInit /\ qs = QsInit
Next == j = -1 /\ j' \in 0 .. 15 /\ UNCHANGED <<k, regs, qs>>
Spec == Init /\ [][Next]_gv
\* 16 patterns per state: k*256 + j*16 .. +15
Pat(i) == FromInt(k * 256 + j * 16 + i)
Conv(op, tt, N, ES, x) == [op |-> op, t |-> tt, sp |-> "f", a |-> x, x_r |-> Fn(op, "f", N, ES, <<x>>)]
ToIntEv(op, tt, N, ES, x) == [op |-> op, t |-> tt, sp |-> "m", a |-> x, x_r |-> PToInt(N, ES, IntW(op), IntSigned(op), x)]
ToF(op, tt, N, ES, f, x) == [op |-> op, t |-> tt, sp |-> "m", a |-> x, x_r |-> (IF x = <<>> THEN <<>> ELSE FEncode(f, Val(N, ES, x)))]
Events ==
  UNION { LET x == Pat(i) IN
          (IF IsNaR(16, x) THEN {} ELSE
             { ToIntEv(op, "p16", 16, 1, x) : op \in {"to_i32", "to_u32", "to_i64", "to_u64"} } \cup
             { ToF("to_f32", "p16", 16, 1, F32, x), ToF("to_f64", "p16", 16, 1, F64, x) }) \cup
          { Conv("to_p8", "p16", 16, 1, x), Conv("to_p32", "p16", 16, 1, x) } : i \in 0 .. 15 }
  \cup (IF k = 0 THEN UNION { LET y == FromInt(j * 16 + i) IN
          { Conv("to_p16", "p8", 8, 0, y), Conv("to_p32", "p8", 8, 0, y) } \cup
          (IF IsNaR(8, y) THEN {} ELSE { ToIntEv(op, "p8", 8, 0, y) : op \in {"to_i32", "to_u64"} }) : i \in 0 .. 15 } ELSE {})
Emit == j = -1 \/ PrintT("GEN" \o ToJson(Events))
=======================================================================
