----------------------------- MODULE Convert -----------------------------
(* Conversions: IEEE binary32/binary64 <-> posit, integers <-> posit,      *)
(* posit <-> posit.  All by value: Round_target(Value_source).             *)
EXTENDS PositOps

-----------------------------------------------------------------------------
(* IEEE 754 binary formats *)
F32 == [w |-> 32, eb |-> 8,  mb |-> 23, bias |-> 127]
F64 == [w |-> 64, eb |-> 11, mb |-> 52, bias |-> 1023]

\* class and exact value of a float bit pattern
FDecode(f, bits) ==
  LET s == Bit(bits, f.w - 1) = 1
      e == ToInt(Field(bits, f.w - 2, f.mb))
      m == Field(bits, f.mb - 1, 0)
  IN IF e = 2 ^ f.eb - 1 THEN [k |-> IF m = <<>> THEN "inf" ELSE "nan", neg |-> s, v |-> DyZero]
     ELSE IF e = 0 THEN
        (IF m = <<>> THEN [k |-> "zero", neg |-> s, v |-> DyZero]
         ELSE [k |-> "real", neg |-> s, v |-> Dy(s, m, 1 - f.bias - f.mb)])
     ELSE [k |-> "real", neg |-> s, v |-> Dy(s, Add(Pow2(f.mb), m), e - f.bias - f.mb)]
FIsNaN(f, bits) == FDecode(f, bits).k = "nan"

\* round-to-nearest-even of m / 2^sh (sh may be <= 0: exact)
RneShr(m, sh) == IF sh <= 0 THEN Shl(m, -sh) ELSE RneMag([neg |-> FALSE, m |-> m, e |-> -sh])

\* IEEE encoding (round to nearest even) of a non-zero dyadic
FEncode(f, x) ==
  LET emin == 1 - f.bias
      s    == DyScale(x)
      sgn  == IF x.neg THEN Pow2(f.w - 1) ELSE <<>>
  IN IF s < emin THEN
        \* subnormal range: integer multiple of 2^(emin - mb); a carry to 2^mb is the least normal
        Add(sgn, RneShr(x.m, (emin - f.mb) - x.e))
     ELSE
        LET L   == BitLen(x.m)
            sig == RneShr(x.m, L - (f.mb + 1))            \* in [2^mb, 2^(mb+1)]
            raw == Add(Shl(FromInt(s + f.bias - 1), f.mb), sig)   \* carry bumps the exponent
        IN IF Cmp(raw, Shl(FromInt(2 ^ f.eb - 1), f.mb)) >= 0
           THEN Add(sgn, Shl(FromInt(2 ^ f.eb - 1), f.mb))      \* overflow to infinity
           ELSE Add(sgn, raw)

(* C02 *)
PFromFloat(N, ES, f, bits) ==
  LET d == FDecode(f, bits) IN
  IF d.k = "nan" \/ d.k = "inf" THEN NaR(N)
  ELSE IF d.k = "zero" THEN <<>>
  ELSE Round(N, ES, d.v)

(* C03: posit -> float.  NaR gives a NaN (any), zero gives +0.0 *)
PToFloatOk(N, ES, f, p, r) ==
  IF IsNaR(N, p) THEN FIsNaN(f, r)
  ELSE IF IsZero(p) THEN r = <<>>
  ELSE r = FEncode(f, Val(N, ES, p))
\* is the conversion exact (no rounding)?  true for f64 always, for f32 when N <= 16
PToFloatExact(N, ES, f, p) ==
  IsNaR(N, p) \/ IsZero(p) \/ DyCmp(FDecode(f, FEncode(f, Val(N, ES, p))).v, Val(N, ES, p)) = 0

-----------------------------------------------------------------------------
(* C07: integers.  An integer argument/result is its w-bit two's complement image. *)
IntVal(w, signed, bits) ==
  IF signed /\ Bit(bits, w - 1) = 1 THEN Dy(TRUE, Sub(Pow2(w), bits), 0) ELSE Dy(FALSE, bits, 0)
PFromInt(N, ES, w, signed, bits) == Round(N, ES, IntVal(w, signed, bits))

\* nearest integer, ties to even, clamped to the type; NaR is unconstrained (see PToIntOk)
PToInt(N, ES, w, signed, p) ==
  LET r   == DyRound(Val(N, ES, p))           \* e = 0
      hi  == IF signed THEN Sub(Pow2(w - 1), <<1>>) ELSE Sub(Pow2(w), <<1>>)
      lo  == IF signed THEN Pow2(w - 1) ELSE <<>>   \* magnitude of the most negative value
  IN IF DyIsZero(r) THEN <<>>
     ELSE IF r.neg THEN (IF Cmp(r.m, lo) >= 0 THEN (IF signed THEN Pow2(w - 1) ELSE <<>>)
                         ELSE Sub(Pow2(w), r.m))
     ELSE IF Cmp(r.m, hi) >= 0 THEN hi ELSE r.m
PToIntOk(N, ES, w, signed, p, r) == IsNaR(N, p) \/ r = PToInt(N, ES, w, signed, p)

-----------------------------------------------------------------------------
(* C08 / C14: posit -> posit *)
PConv(N1, ES1, N2, ES2, p) == IF IsNaR(N1, p) THEN NaR(N2) ELSE Round(N2, ES2, Val(N1, ES1, p))
=======================================================================
