------------------------------ MODULE Trace ------------------------------
(* Trace validation: a trace recorded from the real library (ndjson, one  *)
(* event per call, operands and results as base-2^15 limb arrays) is      *)
(* replayed against the posit machine, one transition per event.          *)
(*                                                                        *)
(* The specification proper accepts only Good events.  So that one defect *)
(* does not hide the rest of the trace, a rejected event is reported      *)
(* (MISMATCH line: index, what the specification expected) and the        *)
(* machine re-synchronises on the observed value; the checker turns each  *)
(* MISMATCH line into a VIOLATION (or matches it to a known finding).     *)
(* Acceptance of the whole file is by POSTCONDITION (every line consumed).*)
EXTENDS PositMachine, AlgoPx, Json, IOUtils, TLC, TLCExt

Rec == ndJsonDeserialize(IOEnv.TRACE)

VARIABLES l, bad
vars == <<regs, qs, l, bad>>

Has(ev, f) == f \in DOMAIN ev
X(ev) == IF Has(ev, "e") THEN <<ev.a, ev.b, ev.c, ev.e>>
         ELSE IF Has(ev, "c") THEN <<ev.a, ev.b, ev.c>>
         ELSE IF Has(ev, "b") THEN <<ev.a, ev.b>>
         ELSE IF Has(ev, "a") THEN <<ev.a>> ELSE <<>>
EvN(ev) == IF Has(ev, "n") THEN ev.n ELSE 0
EvD(ev) == IF Has(ev, "d") THEN ev.d ELSE -1

\* register operands must hold what the implementation says it read (dataflow integrity:
\* a dropped or reordered event breaks this)
OperandsMatch(ev) ==
  /\ (Has(ev, "ra") => regs[ev.ra] = ev.a)
  /\ (Has(ev, "rb") => regs[ev.rb] = ev.b)
  /\ (Has(ev, "rc") => regs[ev.rc] = ev.c)

\* linalg::quire_dot: one entry of a matrix product = a cleared quire fed row[i] * col[i], rounded once
DotEv(ev, F) ==
  LET PFm == PF(F[1], F[2]) IN
  QToPosit(F[1], F[2], AddTerms(PFm, QZero, [i \in 1 .. Len(ev.as) |-> <<ev.as[i], <<ev.bs[i]>> >>], 1))

\* poly events: deg = 1..18, or 33 / 44 for the 3a / 4a variants; cs = coefficients (each a list of parts)
PolyEv(ev, F) ==
  LET PFm == PF(F[1], F[2]) IN
  IF ev.deg = 33 THEN Poly3a(PFm, ev.a, ev.cs)
  ELSE IF ev.deg = 44 THEN Poly4a(PFm, ev.a, ev.cs)
  ELSE Poly(PFm, ev.deg, ev.a, ev.cs)

\* elementary functions: three-valued verdict, first at 64 bits, re-examined at 200 bits if undecided
IsElem(ev) == (ev.t \in {"p8", "p16"} /\ ev.op \in C11Ops) \/ (ev.t = "p32" /\ ev.op \in C15Ops)
ElemV(op, t, N, ES, x, res, P) ==
  IF t = "p32" THEN V15(op, N, ES, x[1], IF Len(x) > 1 THEN x[2] ELSE <<>>, res, P)
  ELSE V11(op, N, ES, x[1], res, P)
ElemVerdict(op, t, N, ES, x, res) ==
  LET v1 == ElemV(op, t, N, ES, x, res, 64) IN IF v1 # "undecided" THEN v1 ELSE ElemV(op, t, N, ES, x, res, 200)
ElemGood1(op, ev, N, ES, x, res) ==
  LET v == ElemVerdict(op, ev.t, N, ES, x, res) IN
  IF v = "undecided" THEN PrintT(<<"UNDECIDED", op, ev.t, x>>) ELSE v = "ok"
\* (sin_cos is not among the functions C15 lists and is in fact far less accurate than sin and cos --
\*  sin_cos(4.0) is 137 / 1340 encodings off -- so its value is left unspecified: UnspecOps)
ElemGood(ev, N, ES, x) == ElemGood1(ev.op, ev, N, ES, x, ev.r)
\* diagnosis of a C15 failure: an upper bound of the excess -- the first j of the ladder for which the result is within
\* Bound + j encodings (99: further off than Bound + 59)
W15(ev, N, ES, x, j) ==
  LET b2 == IF Len(x) > 1 THEN x[2] ELSE <<>>
      v1 == V15K(ev.op, N, ES, x[1], b2, ev.r, 64, Bound(ev.op) + j)
  IN IF v1 # "undecided" THEN v1 ELSE V15K(ev.op, N, ES, x[1], b2, ev.r, 200, Bound(ev.op) + j)
ExcessLadder == <<1, 2, 3, 5, 8, 11, 16, 27, 59>>
RECURSIVE ExcessFrom(_, _, _, _, _)
ExcessFrom(ev, N, ES, x, i) ==
  IF i > Len(ExcessLadder) THEN 99
  ELSE IF W15(ev, N, ES, x, ExcessLadder[i]) # "wrong" THEN ExcessLadder[i] ELSE ExcessFrom(ev, N, ES, x, i + 1)
Excess15(ev, N, ES, x) == ExcessFrom(ev, N, ES, x, 1)

-----------------------------------------------------------------------------
(* register-file events *)
\* the only explicit not-implemented stubs a driver can reach by choice of input: P32E2 sin/cos/tan
\* beyond their documented range (sleef.rs: `todo!()` for |x| >= 393216)
StubOk(ev, N, ES, x) ==
  /\ ev.o = "panic" /\ Has(ev, "stub") /\ ev.stub
  /\ ev.t = "p32" /\ ev.op \in {"sin", "cos", "tan", "sin_cos"}
  /\ ~IsNaR(N, x[1]) /\ ~TrigDomain(Val(N, ES, x[1]))
\* for the diagnosis of a panic: was the argument inside the function's documented domain?
DomTag(ev, N, ES, x) ==
  IF ev.t = "p32" /\ ev.op \in C15Ops /\ Len(x) = 1 /\ ~IsNaR(N, x[1]) /\ ~InDomain(ev.op, Val(N, ES, x[1]))
  THEN "out-of-domain" ELSE "in-domain"

\* ---- generic-width types: t = "x1" / "x2", width n; values travel as the 32-bit left-aligned storage
IsX(ev) == ev.t \in {"x1", "x2"}
XSh(ev) == 32 - ev.n
XRawArgOps == {"from_f32", "from_f64", "from_i32", "from_u32", "from_i64", "from_u64", "from_p8", "from_p16", "from_p32", "new", "const"}
XPositResOps == {"add", "sub", "mul", "div", "neg", "mul_add", "mul_sub", "sub_product", "sqrt", "round", "min", "max", "clamp",
                 "const", "from_f32", "from_f64", "from_i32", "from_u32", "from_i64", "from_u64", "from_p8", "from_p16", "from_p32"}
\* operands as N-bit patterns
XArgs(ev, raw) == IF ev.op \in XRawArgOps THEN raw ELSE [k \in 1 .. Len(raw) |-> Shr(raw[k], XSh(ev))]
\* closure: the unused low 32-N bits of a generic value are zero (operands are generated that way;
\* for results it is part of the property)
XLowZero(ev, v) == Low(v, XSh(ev)) = <<>>
XAccept(ev, N, ES, x, r) ==
  CASE ev.op = "from_p8"  -> r = PConv(8, 0, N, ES, x[1])
    [] ev.op = "from_p16" -> r = PConv(16, 1, N, ES, x[1])
    [] ev.op = "from_p32" -> r = PConv(32, 2, N, ES, x[1])
    [] ev.op = "new" -> r = Shr(x[1], XSh(ev))
    [] OTHER -> (Pre(ev.op, N, ES, x) => Accept(ev.op, ev.sp, N, ES, x, r))
\* the code also refines the algorithm-level specification AlgoPx (which MCAlgo shows refines Accept for every N)
AlgoOk(ev, N, x) ==
  /\ (ev.t = "x2" /\ ev.op = "mul" /\ N >= 3) => Shr(ev.r, XSh(ev)) = AlgoMulE2(N, x[1], x[2])
  /\ (ev.t = "x2" /\ ev.op = "add" /\ N >= 3) => Shr(ev.r, XSh(ev)) = AlgoAddE2(N, x[1], x[2])
  /\ (ev.t = "x2" /\ ev.op = "sub" /\ N >= 3) => Shr(ev.r, XSh(ev)) = AlgoSubE2(N, x[1], x[2])
  /\ (ev.t = "x2" /\ ev.op = "div" /\ N >= 3) => Shr(ev.r, XSh(ev)) = AlgoDivE2(N, x[1], x[2])
  /\ (ev.t = "x1" /\ ev.op = "mul" /\ N >= 3) => Shr(ev.r, XSh(ev)) = AlgoMulE1(N, x[1], x[2])
GoodX(ev, F, raw) ==
  LET N == F[1] ES == F[2] x == XArgs(ev, raw) IN
  /\ ev.o = "ok"
  /\ IF ev.op = "to_x" THEN
        \* to the other exponent size, width m
        LET M == ev.m ES2 == 3 - ES IN
        /\ Low(ev.r, 32 - M) = <<>>
        /\ Shr(ev.r, 32 - M) = PConv(N, ES, M, ES2, x[1])
     ELSE IF ev.op \in XPositResOps THEN
        /\ (ev.op # "new" => XLowZero(ev, ev.r))
        /\ XAccept(ev, N, ES, x, Shr(ev.r, XSh(ev)))
        /\ AlgoOk(ev, N, x)
     ELSE XAccept(ev, N, ES, x, ev.r)
DiagX(ev, F, raw) ==
  LET N == F[1] ES == F[2] x == XArgs(ev, raw) IN
  IF ev.o # "ok" THEN <<"outcome", ev.o, "in-domain">>
  ELSE IF ev.op = "to_x" THEN <<"expected", Shl(PConv(N, ES, ev.m, 3 - ES, x[1]), 32 - ev.m)>>
  ELSE IF ev.op \in {"from_p8", "from_p16", "from_p32"} THEN
       <<"expected", Shl(PConv(IF ev.op = "from_p8" THEN 8 ELSE IF ev.op = "from_p16" THEN 16 ELSE 32,
                               IF ev.op = "from_p8" THEN 0 ELSE IF ev.op = "from_p16" THEN 1 ELSE 2, N, ES, x[1]), XSh(ev))>>
  ELSE IF ev.op \in FnOps /\ ev.op \in XPositResOps THEN <<"expected", Shl(Fn(ev.op, ev.sp, N, ES, x), XSh(ev))>>
  ELSE IF ev.op \in FnOps THEN <<"expected", Fn(ev.op, ev.sp, N, ES, x)>>
  ELSE <<"relation-violated">>

GoodCall(ev, F, x) ==
  /\ ev.o = "ok"
  /\ OperandsMatch(ev)
  /\ IF ev.op = "mathconst" THEN      \* MathConsts and FloatConst spellings agree, and name the constant
        /\ ev.r = ev.r2
        /\ LET v1 == ConstVerdict(ev.sp, F[1], F[2], ev.r, 64)
               v == IF v1 # "undecided" THEN v1 ELSE ConstVerdict(ev.sp, F[1], F[2], ev.r, 200)
           IN v # "wrong"
     ELSE IF ev.op = "poly" THEN ev.r = PolyEv(ev, F)
     ELSE IF ev.op = "q_dot" THEN ev.r = DotEv(ev, F)
     ELSE IF IsElem(ev) THEN ElemGood(ev, F[1], F[2], x)
     ELSE (Pre(ev.op, F[1], F[2], x) => Accept(ev.op, ev.sp, F[1], F[2], x, ev.r))
GoodOp(ev) ==
  LET F == Fmt(ev.t, EvN(ev)) x == X(ev) IN
  IF IsX(ev) THEN GoodX(ev, F, x)
  ELSE IF ev.o = "panic" THEN StubOk(ev, F[1], F[2], x) ELSE GoodCall(ev, F, x)

DiagOp(ev) ==
  LET F == Fmt(ev.t, EvN(ev)) x == X(ev) IN
  IF IsX(ev) THEN DiagX(ev, F, x)
  ELSE IF ev.o # "ok" THEN <<"outcome", ev.o, DomTag(ev, F[1], F[2], x)>>
  ELSE IF ~OperandsMatch(ev) THEN <<"operands-do-not-match-registers">>
  ELSE IF ev.op = "poly" THEN <<"expected", PolyEv(ev, F)>>
  ELSE IF ev.op = "q_dot" THEN <<"expected", DotEv(ev, F)>>
  ELSE IF IsElem(ev) /\ ev.t = "p32" /\ ev.op = "powf" THEN
         <<"enclosure-outside-allowed-cells", Bound(ev.op), "excess", Excess15(ev, F[1], F[2], x), "composition-exp-ln",
           IF ~IsNaR(F[1], x[1]) /\ ~IsNaR(F[1], x[2]) /\ ~Sign(F[1], x[1]) /\ x[1] # <<>> /\ PowfComposedOk(F[1], F[2], x[1], x[2], ev.r, 64)
           THEN "consistent" ELSE "inconsistent">>
  ELSE IF IsElem(ev) THEN (IF ev.t = "p32" THEN <<"enclosure-outside-allowed-cells", Bound(ev.op), "excess", Excess15(ev, F[1], F[2], x)>>
                           ELSE <<"enclosure-outside-allowed-cells", 0>>)
  ELSE IF ev.op \in FnOps THEN <<"expected", Fn(ev.op, ev.sp, F[1], F[2], x)>>
  ELSE <<"relation-violated">>

RegsAfter(ev) == IF ev.o = "ok" /\ EvD(ev) >= 0 THEN [regs EXCEPT ![ev.d] = ev.r] ELSE regs

StepOp(ev) ==
  /\ regs' = RegsAfter(ev)
  /\ qs' = qs
  /\ IF GoodOp(ev) THEN bad' = bad
     ELSE PrintT(<<"MISMATCH", l, DiagOp(ev)>>) /\ bad' = bad + 1

-----------------------------------------------------------------------------
(* quire events: op "q_*", field q = quire index, type tag t (+ n) gives the posit format;  *)
(* mutations carry the observation after the call: bits, z (is_zero), nn (is_nar)           *)
QW(ev) == IF ev.t = "p8" THEN 32 ELSE IF ev.t = "p16" THEN 128 ELSE IF ev.t = "x1" THEN 128 ELSE 512
QFr(ev) == IF ev.t = "p8" THEN 12 ELSE IF ev.t = "p16" THEN 56 ELSE IF ev.t = "x1" THEN 56 ELSE 240

\* generic operands of quire events are unshifted to N-bit patterns
U(ev, v) == IF ev.t \in {"x1", "x2"} THEN Shr(v, 32 - ev.n) ELSE v
\* the sequence of <<a, b>> product terms a multi-term spelling stands for (macros.rs)
Terms(ev) ==
  CASE ev.sp \in {"pp", "m", "tr"} -> << <<U(ev, ev.a), U(ev, ev.b)>> >>
    [] ev.sp = "p3"  -> << <<ev.a, ev.b>>, <<ev.a, ev.c>> >>
    [] ev.sp = "p4"  -> << <<ev.a, ev.b>>, <<ev.a, ev.c>>, <<ev.a, ev.e>> >>
    [] ev.sp = "p22" -> << <<ev.a, ev.c>>, <<ev.a, ev.e>>, <<ev.b, ev.c>>, <<ev.b, ev.e>> >>
    [] ev.sp = "arr" -> [i \in 1 .. Len(ev.bs) |-> <<ev.a, ev.bs[i]>>]

RECURSIVE FoldTerms(_, _, _, _, _, _, _, _)
FoldTerms(W, QF, N, ES, q, ts, i, sub) ==
  IF i > Len(ts) THEN q
  ELSE FoldTerms(W, QF, N, ES, QAddProduct(W, QF, N, ES, q, ts[i][1], ts[i][2], sub), ts, i + 1, sub)

\* the machine's quire after the event
QNext(ev, q) ==
  LET F == Fmt(ev.t, EvN(ev)) N == F[1] ES == F[2] W == QW(ev) QF == QFr(ev) IN
  CASE ev.op \in {"q_init", "q_clear"} -> QZero
    [] ev.op = "q_neg" -> QNeg(q)
    [] ev.op = "q_add" -> IF ev.sp = "p" THEN QAddPosit(W, QF, N, ES, q, U(ev, ev.a), FALSE)
                          ELSE FoldTerms(W, QF, N, ES, q, Terms(ev), 1, FALSE)
    [] ev.op = "q_sub" -> IF ev.sp = "p" THEN QAddPosit(W, QF, N, ES, q, U(ev, ev.a), TRUE)
                          ELSE FoldTerms(W, QF, N, ES, q, Terms(ev), 1, TRUE)
    [] ev.op = "q_from_posit" -> QFromPosit(W, QF, N, ES, U(ev, ev.a))
    [] ev.op = "q_from_bits" -> QOfBits(W, QF, ev.a)
    [] OTHER -> q

QOps == {"q_init", "q_clear", "q_neg", "q_add", "q_sub", "q_from_posit", "q_from_bits",
         "q_to_posit", "q_to_bits", "q_is_zero", "q_is_nar", "q_split2", "q_split3"}
QMutators == {"q_init", "q_clear", "q_neg", "q_add", "q_sub", "q_from_posit", "q_from_bits"}

\* does the observation agree with the machine's quire q (only constrained while in range)
QObsOk(ev, q) ==
  ~q.inr \/ (/\ ev.bits = QBits(QW(ev), QFr(ev), q)
             /\ ev.z = QIsZero(q)
             /\ ev.nn = QIsNaR(q))

GoodQ(ev) ==
  LET F == Fmt(ev.t, EvN(ev)) N == F[1] ES == F[2] q == qs[ev.q] IN
  /\ ev.o = "ok"
  /\ IF ev.op \in QMutators THEN QObsOk(ev, QNext(ev, q))
     ELSE IF ~q.inr THEN TRUE
     ELSE CASE ev.op = "q_to_posit" -> ev.r = (IF ev.t \in {"x1", "x2"} THEN Shl(QToPosit(N, ES, q), 32 - N) ELSE QToPosit(N, ES, q))
            [] ev.op = "q_to_bits" -> ev.r = QBits(QW(ev), QFr(ev), q)
            [] ev.op = "q_is_zero" -> ev.r = QIsZero(q)
            [] ev.op = "q_is_nar" -> ev.r = QIsNaR(q)
            [] ev.op = "q_split2" -> <<ev.r, ev.r2>> = QSplit(QW(ev), QFr(ev), N, ES, q, 2)
            [] ev.op = "q_split3" -> <<ev.r, ev.r2, ev.r3>> = QSplit(QW(ev), QFr(ev), N, ES, q, 3)

DiagQ(ev) ==
  LET F == Fmt(ev.t, EvN(ev)) N == F[1] ES == F[2] q == qs[ev.q] IN
  IF ev.o # "ok" THEN <<"outcome", ev.o>>
  ELSE IF ev.op \in QMutators THEN
       LET q2 == QNext(ev, q) IN <<"expected-bits", QBits(QW(ev), QFr(ev), q2), QIsZero(q2), QIsNaR(q2)>>
  ELSE IF ev.op = "q_to_posit" THEN <<"expected", IF ev.t \in {"x1", "x2"} THEN Shl(QToPosit(N, ES, q), 32 - N) ELSE QToPosit(N, ES, q)>>
  ELSE IF ev.op \in {"q_split2", "q_split3"} THEN <<"expected", QSplit(QW(ev), QFr(ev), N, ES, q, 3)>>
  ELSE <<"observation-wrong", QBits(QW(ev), QFr(ev), q)>>

StepQ(ev) ==
  LET q2 == IF ev.op \in QMutators THEN QNext(ev, qs[ev.q]) ELSE qs[ev.q] IN
  /\ regs' = regs
  /\ IF GoodQ(ev) THEN bad' = bad /\ qs' = [qs EXCEPT ![ev.q] = q2]
     ELSE /\ PrintT(<<"MISMATCH", l, DiagQ(ev)>>)
          /\ bad' = bad + 1
          \* re-synchronise on what the implementation holds
          /\ qs' = IF ev.o = "ok" /\ ev.op \in QMutators
                   THEN [qs EXCEPT ![ev.q] = QOfBits(QW(ev), QFr(ev), ev.bits)] ELSE qs

-----------------------------------------------------------------------------
(* T3: events emitted by the cfg(softposit_verif) hooks inside the crate.  Arithmetic events *)
(* (sp = "hook") are ordinary operation events.  Quire events carry the bit image before the  *)
(* call, so each one is a complete transition of the quire machine by itself:                 *)
(*   q_step : post = (pre (+|-) a*b) or (pre (+|-) a);   q_round : r = round(pre).            *)
T3Ops == {"q_step", "q_round"}
GoodT3(ev) ==
  LET F == Fmt(ev.t, EvN(ev)) N == F[1] ES == F[2] W == QW(ev) QF == QFr(ev)
      q0 == QOfBits(W, QF, ev.pre)
  IN IF ev.op = "q_round" THEN ev.r = QToPosit(N, ES, q0)
     ELSE LET q1 == IF ev.single THEN QAddPosit(W, QF, N, ES, q0, ev.a, ev.sub)
                    ELSE QAddProduct(W, QF, N, ES, q0, ev.a, ev.b, ev.sub)
          IN ~q1.inr \/ ev.bits = QBits(W, QF, q1)
DiagT3(ev) ==
  LET F == Fmt(ev.t, EvN(ev)) N == F[1] ES == F[2] W == QW(ev) QF == QFr(ev)
      q0 == QOfBits(W, QF, ev.pre)
  IN IF ev.op = "q_round" THEN <<"expected", QToPosit(N, ES, q0)>>
     ELSE <<"expected-bits", QBits(W, QF, IF ev.single THEN QAddPosit(W, QF, N, ES, q0, ev.a, ev.sub)
                                         ELSE QAddProduct(W, QF, N, ES, q0, ev.a, ev.b, ev.sub))>>
StepT3(ev) ==
  /\ regs' = regs /\ qs' = qs
  /\ IF GoodT3(ev) THEN bad' = bad ELSE PrintT(<<"MISMATCH", l, DiagT3(ev)>>) /\ bad' = bad + 1

-----------------------------------------------------------------------------
Init == regs = RegsInit /\ qs = QsInit /\ l = 1 /\ bad = 0 /\ TLCSet(42, 0)

Step ==
  /\ l <= Len(Rec)
  /\ l' = l + 1
  /\ TLCSet(42, bad)       \* (register read by the postcondition; single worker)
  /\ LET ev == Rec[l] IN
     IF ev.op = "reset" THEN Reset /\ bad' = bad
     ELSE IF ev.op \in T3Ops THEN StepT3(ev)
     ELSE IF ev.op \in QOps THEN StepQ(ev)
     ELSE StepOp(ev)

Spec == Init /\ [][Step]_vars

\* the number of rejected events, for the checker to cross-check against the MISMATCH lines it parsed
\* (register 42 holds `bad` before the last step; the last event's own verdict is added by its MISMATCH line)
Accepted ==
  IF TLCGet("stats").diameter - 1 = Len(Rec) THEN PrintT(<<"BADCOUNT-BEFORE-LAST", TLCGet(42)>>)
  ELSE PrintT(<<"STUCK", TLCGet("stats").diameter, Rec[TLCGet("stats").diameter]>>) /\ FALSE
=======================================================================
