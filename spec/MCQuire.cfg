SPECIFICATION Spec
CONSTANTS MaxLen = 3
          Fmts <- FmtsQuick
INVARIANT Exact NaRSticky Obs Split RoundTrip
VIEW view
CHECK_DEADLOCK FALSE
