-------------------------- MODULE PositMachine --------------------------
(* The posit machine: the library as a state machine.                    *)
(*   regs : register file (results of earlier operations feed later ones)*)
(*   qs   : the quire accumulators (the library's only mutable objects)   *)
(* One action per public operation family.  Operations on registers are   *)
(* total functions (or, where the properties leave freedom, relations)    *)
(* of operand VALUES; Fn gives the function, Accept the relation.         *)
EXTENDS Polynom, ElemOps

VARIABLES regs, qs

NRegs == 8
NQuires == 2
RegsInit == [i \in 0 .. NRegs - 1 |-> <<>>]
QsInit == [i \in 0 .. NQuires - 1 |-> QZero]

\* format of a posit type tag: <<N, ES>>
Fmt(t, n) == CASE t = "p8" -> <<8, 0>> [] t = "p16" -> <<16, 1>> [] t = "p32" -> <<32, 2>>
               [] t = "x1" -> <<n, 1>> [] t = "x2" -> <<n, 2>>

IntOps == {"from_i8", "from_i16", "from_i32", "from_i64", "from_isize",
           "from_u8", "from_u16", "from_u32", "from_u64", "from_usize"}
IntW(op) == CASE op \in {"from_i8", "from_u8", "to_i8", "to_u8"} -> 8
              [] op \in {"from_i16", "from_u16", "to_i16", "to_u16"} -> 16
              [] op \in {"from_i32", "from_u32", "to_i32", "to_u32"} -> 32
              [] OTHER -> 64
IntSigned(op) == op \in {"from_i8", "from_i16", "from_i32", "from_i64", "from_isize",
                         "to_i8", "to_i16", "to_i32", "to_i64", "to_isize"}

BoolOps == {"eq", "ne", "lt", "le", "gt", "ge", "is_zero", "is_one", "is_nar", "is_nan",
            "is_infinite", "is_finite", "is_normal", "is_positive", "is_negative"}

PRem(N, ES, a, b) == PSub(N, ES, a, PMul(N, ES, PTrunc(N, ES, PDiv(N, ES, a, b)), b))
PDivEuclid(N, ES, a, b) ==
  LET q == PTrunc(N, ES, PDiv(N, ES, a, b)) IN
  IF PLt(N, ES, PRem(N, ES, a, b), <<>>)
  THEN (IF PGt(N, ES, b, <<>>) THEN PSub(N, ES, q, POne(N)) ELSE PAdd(N, ES, q, POne(N)))
  ELSE q
PRemEuclid(N, ES, a, b) ==
  LET r == PRem(N, ES, a, b) IN
  IF PLt(N, ES, r, <<>>) THEN PAdd(N, ES, r, PAbs(N, ES, b)) ELSE r

PConst(N, ES, name) ==
  CASE name \in {"ZERO", "nt_zero", "nt_neg_zero", "default"} -> <<>>
    [] name \in {"ONE", "nt_one"} -> POne(N)
    [] name \in {"NAR", "NAN", "INFINITY", "nt_nan", "nt_infinity", "nt_neg_infinity"} -> NaR(N)
    [] name \in {"MAX", "nt_max_value", "b_max_value"} -> MaxPos(N)
    [] name \in {"MIN", "nt_min_value", "b_min_value"} -> Neg(N, MaxPos(N))
    [] name \in {"MIN_POSITIVE", "nt_min_positive_value"} -> MinPos
    [] name = "EPSILON" -> Round(N, ES, Dy(FALSE, <<1>>, -(N - 3 - ES)))

\* operations whose result is a function of the operand values
Fn(op, sp, N, ES, x) ==
  CASE op = "add" -> PAdd(N, ES, x[1], x[2])
    [] op = "sub" -> PSub(N, ES, x[1], x[2])
    [] op = "mul" -> PMul(N, ES, x[1], x[2])
    [] op = "div" -> PDiv(N, ES, x[1], x[2])
    [] op = "rem" -> PRem(N, ES, x[1], x[2])
    [] op = "div_euclid" -> PDivEuclid(N, ES, x[1], x[2])
    [] op = "rem_euclid" -> PRemEuclid(N, ES, x[1], x[2])
    [] op = "neg" -> PNeg(N, ES, x[1])
    [] op = "recip" -> PRecip(N, ES, x[1])
    [] op = "mul_add" -> PMulAdd(N, ES, x[1], x[2], x[3])
    [] op = "mul_sub" -> PMulSub(N, ES, x[1], x[2], x[3])
    [] op = "sub_product" -> PSubProduct(N, ES, x[1], x[2], x[3])
    [] op = "sqrt" -> PSqrt(N, ES, x[1])
    [] op = "round" -> PRound(N, ES, x[1])
    [] op = "floor" -> PFloor(N, ES, x[1])
    [] op = "ceil" -> PCeil(N, ES, x[1])
    [] op = "trunc" -> PTrunc(N, ES, x[1])
    [] op = "fract" -> PFract(N, ES, x[1])
    [] op = "min" -> PMin(N, ES, x[1], x[2])
    [] op = "max" -> PMax(N, ES, x[1], x[2])
    [] op = "clamp" -> PClamp(N, ES, x[1], x[2], x[3])
    [] op = "abs" -> PAbs(N, ES, x[1])
    [] op = "signum" -> PSignum(N, ES, x[1])
    [] op = "abs_sub" -> IF PLe(N, ES, x[1], x[2]) THEN <<>> ELSE PSub(N, ES, x[1], x[2])
    [] op = "eq" -> PEq(N, ES, x[1], x[2])
    [] op = "ne" -> ~PEq(N, ES, x[1], x[2])
    [] op = "lt" -> PLt(N, ES, x[1], x[2])
    [] op = "le" -> PLe(N, ES, x[1], x[2])
    [] op = "gt" -> PGt(N, ES, x[1], x[2])
    [] op = "ge" -> PGe(N, ES, x[1], x[2])
    [] op \in {"cmp", "partial_cmp"} -> PCmp(N, ES, x[1], x[2])
    [] op = "is_zero" -> IsZero(x[1])
    [] op = "is_one" -> x[1] = POne(N)
    [] op \in {"is_nar", "is_nan", "is_infinite"} -> IsNaR(N, x[1])
    [] op \in {"is_finite", "is_normal"} -> ~IsNaR(N, x[1])
    [] op = "classify" -> PClass(N, x[1])
    [] op = "from_f32" -> PFromFloat(N, ES, F32, x[1])
    [] op = "from_f64" -> PFromFloat(N, ES, F64, x[1])
    [] op \in IntOps -> PFromInt(N, ES, IntW(op), IntSigned(op), x[1])
    [] op \in {"f64_roundtrip", "str_roundtrip", "new", "load"} -> x[1]
    [] op = "to_p8" -> PConv(N, ES, 8, 0, x[1])
    [] op = "to_p16" -> PConv(N, ES, 16, 1, x[1])
    [] op = "to_p32" -> PConv(N, ES, 32, 2, x[1])
    [] op = "const" -> PConst(N, ES, sp)

FnOps == {"add", "sub", "mul", "div", "rem", "div_euclid", "rem_euclid", "neg", "recip",
          "mul_add", "mul_sub", "sub_product", "sqrt", "round", "floor", "ceil", "trunc", "fract",
          "min", "max", "clamp", "abs", "signum", "abs_sub", "eq", "ne", "lt", "le", "gt", "ge",
          "cmp", "partial_cmp", "is_zero", "is_one", "is_nar", "is_nan", "is_infinite", "is_finite",
          "is_normal", "classify", "from_f32", "from_f64",
          "f64_roundtrip", "str_roundtrip", "new", "load", "to_p8", "to_p16", "to_p32", "const"} \cup IntOps

\* C19: Sample(type) is a nondeterministic action; its whole contract is: a real posit in [0, 1)
SampleOk(N, ES, r) == IsPattern(N, r) /\ ~IsNaR(N, r) /\ ~Sign(N, r) /\ PLt(N, ES, r, POne(N))

\* operations specified by a relation between operands and result
Rel(op, sp, N, ES, x, r) ==
  CASE op = "sample" -> SampleOk(N, ES, r)
    [] op = "copysign" -> r \in PCopySignSet(N, ES, x[1], x[2])
    [] op = "is_sign_negative" -> IsNaR(N, x[1]) \/ r = PIsNeg(N, ES, x[1])
    [] op = "is_sign_positive" -> IsNaR(N, x[1]) \/ r = ~PIsNeg(N, ES, x[1])
    [] op = "is_positive" -> IsNaR(N, x[1]) \/ r = ~PIsNeg(N, ES, x[1])
    [] op = "is_negative" -> IsNaR(N, x[1]) \/ r = PIsNeg(N, ES, x[1])
    [] op = "to_f32" -> PToFloatOk(N, ES, F32, x[1], r)
    [] op = "to_f64" -> PToFloatOk(N, ES, F64, x[1], r)
    [] op \in {"to_i32", "to_u32", "to_i64", "to_u64", "to_isize", "to_usize"} ->
         PToIntOk(N, ES, IntW(op), IntSigned(op), x[1], r)
    [] op \in {"to_i8", "to_i16"} ->
         IsNaR(N, x[1]) \/ r = Low(PToInt(N, ES, 32, TRUE, x[1]), IntW(op))
    [] op \in {"to_u8", "to_u16"} ->
         IsNaR(N, x[1]) \/ r = Low(PToInt(N, ES, 32, FALSE, x[1]), IntW(op))
RelOps == {"sample", "copysign", "is_sign_negative", "is_sign_positive", "is_positive", "is_negative", "to_f32", "to_f64",
           "to_i32", "to_u32", "to_i64", "to_u64", "to_isize", "to_usize",
           "to_i8", "to_i16", "to_u8", "to_u16"}

\* preconditions the library states (std contract copied with an assert!)
Pre(op, N, ES, x) == op = "clamp" => (PLe(N, ES, x[2], x[3]))

\* public operations whose VALUE no listed property constrains (only totality, C16): they must return
\* normally, whatever they return.
UnspecOps == {"exp10", "tanh", "asinh", "acosh", "to_degrees", "to_radians", "sin_cos"}

Accept(op, sp, N, ES, x, r) ==
  IF op \in FnOps THEN r = Fn(op, sp, N, ES, x)
  ELSE IF op \in UnspecOps THEN TRUE
  ELSE Rel(op, sp, N, ES, x, r)

-----------------------------------------------------------------------------
(* Actions *)
Reset == regs' = RegsInit /\ qs' = QsInit
\* execute op on operand values x, result r lands in register d (d = -1: discarded)
Exec(op, sp, N, ES, x, d, r) ==
  /\ Pre(op, N, ES, x)
  /\ Accept(op, sp, N, ES, x, r)
  /\ regs' = IF d >= 0 THEN [regs EXCEPT ![d] = r] ELSE regs
  /\ UNCHANGED qs
=======================================================================
