---------------------------- MODULE PositOps ----------------------------
(* Every arithmetic / ordering / sign operation of the library, defined   *)
(* by its real-number meaning on N-bit patterns of format (N, ES).        *)
EXTENDS Posit

-----------------------------------------------------------------------------
(* C01 *)
PAdd(N, ES, a, b) ==
  IF IsNaR(N, a) \/ IsNaR(N, b) THEN NaR(N)
  ELSE Round(N, ES, DyAdd(Val(N, ES, a), Val(N, ES, b)))
PSub(N, ES, a, b) ==
  IF IsNaR(N, a) \/ IsNaR(N, b) THEN NaR(N)
  ELSE Round(N, ES, DySub(Val(N, ES, a), Val(N, ES, b)))
PMul(N, ES, a, b) ==
  IF IsNaR(N, a) \/ IsNaR(N, b) THEN NaR(N)
  ELSE Round(N, ES, DyMul(Val(N, ES, a), Val(N, ES, b)))
PDiv(N, ES, a, b) ==
  IF IsNaR(N, a) \/ IsNaR(N, b) \/ IsZero(b) THEN NaR(N)
  ELSE RoundQuot(N, ES, Val(N, ES, a), Val(N, ES, b))

(* C05: one rounding of a*b+c, a*b-c, c-a*b *)
PMulAdd(N, ES, a, b, c) ==
  IF IsNaR(N, a) \/ IsNaR(N, b) \/ IsNaR(N, c) THEN NaR(N)
  ELSE Round(N, ES, DyAdd(DyMul(Val(N, ES, a), Val(N, ES, b)), Val(N, ES, c)))
PMulSub(N, ES, a, b, c) ==
  IF IsNaR(N, a) \/ IsNaR(N, b) \/ IsNaR(N, c) THEN NaR(N)
  ELSE Round(N, ES, DySub(DyMul(Val(N, ES, a), Val(N, ES, b)), Val(N, ES, c)))
\* c.sub_product(a, b) = c - a*b
PSubProduct(N, ES, c, a, b) ==
  IF IsNaR(N, a) \/ IsNaR(N, b) \/ IsNaR(N, c) THEN NaR(N)
  ELSE Round(N, ES, DySub(Val(N, ES, c), DyMul(Val(N, ES, a), Val(N, ES, b))))

(* C06 *)
PSqrt(N, ES, a) ==
  IF IsNaR(N, a) \/ Sign(N, a) THEN NaR(N)
  ELSE IF IsZero(a) THEN <<>>
  ELSE RoundSqrt(N, ES, Val(N, ES, a))

-----------------------------------------------------------------------------
(* C09: integer-valued functions, on the exact value x = (-1)^neg m 2^e.      *)
\* integer part and fraction info of a magnitude
IPart(x)  == IF x.e >= 0 THEN Shl(x.m, x.e) ELSE Shr(x.m, -x.e)
HasFrac(x) == x.e < 0 /\ LowNonZero(x.m, -x.e)
HalfBit(x) == IF x.e < 0 THEN Bit(x.m, -x.e - 1) ELSE 0
BelowHalf(x) == x.e < -1 /\ LowNonZero(x.m, -x.e - 1)
\* magnitude rounded to nearest integer, ties to even
RneMag(x) == LET ip == IPart(x) IN
             IF HalfBit(x) = 1 /\ (BelowHalf(x) \/ Bit(ip, 0) = 1) THEN Add(ip, <<1>>) ELSE ip
CeilMag(x) == IF HasFrac(x) THEN Add(IPart(x), <<1>>) ELSE IPart(x)

DyRound(x) == IF DyIsZero(x) THEN x ELSE DyFromNat(x.neg, RneMag(x))
DyTrunc(x) == IF DyIsZero(x) THEN x ELSE DyFromNat(x.neg, IPart(x))
DyFloor(x) == IF DyIsZero(x) THEN x
              ELSE IF x.neg THEN DyFromNat(TRUE, CeilMag(x)) ELSE DyFromNat(FALSE, IPart(x))
DyCeil(x)  == IF DyIsZero(x) THEN x
              ELSE IF x.neg THEN DyFromNat(TRUE, IPart(x)) ELSE DyFromNat(FALSE, CeilMag(x))
DyFract(x) == DySub(x, DyTrunc(x))

PUnaryInt(N, ES, a, F(_)) == IF IsNaR(N, a) THEN a ELSE Round(N, ES, F(Val(N, ES, a)))
PRound(N, ES, a) == PUnaryInt(N, ES, a, DyRound)
PTrunc(N, ES, a) == PUnaryInt(N, ES, a, DyTrunc)
PFloor(N, ES, a) == PUnaryInt(N, ES, a, DyFloor)
PCeil(N, ES, a)  == PUnaryInt(N, ES, a, DyCeil)
PFract(N, ES, a) == PUnaryInt(N, ES, a, DyFract)
\* the results above are exactly representable (MCLaws checks it): rounding must be exact
IntFnExact(N, ES, a, F(_)) ==
  IsNaR(N, a) \/ DyCmp(Val(N, ES, Round(N, ES, F(Val(N, ES, a)))), F(Val(N, ES, a))) = 0

-----------------------------------------------------------------------------
(* C10: order on VALUES: NaR below every real and equal only to itself.      *)
PCmp(N, ES, a, b) ==
  IF IsNaR(N, a) THEN (IF IsNaR(N, b) THEN 0 ELSE -1)
  ELSE IF IsNaR(N, b) THEN 1
  ELSE DyCmp(Val(N, ES, a), Val(N, ES, b))
PEq(N, ES, a, b) == PCmp(N, ES, a, b) = 0
PLt(N, ES, a, b) == PCmp(N, ES, a, b) < 0
PLe(N, ES, a, b) == PCmp(N, ES, a, b) <= 0
PGt(N, ES, a, b) == PCmp(N, ES, a, b) > 0
PGe(N, ES, a, b) == PCmp(N, ES, a, b) >= 0
PMin(N, ES, a, b) == IF PLt(N, ES, a, b) THEN a ELSE b
PMax(N, ES, a, b) == IF PGt(N, ES, a, b) THEN a ELSE b
\* precondition lo <= hi
PClamp(N, ES, a, lo, hi) == IF PLt(N, ES, a, lo) THEN lo ELSE IF PGt(N, ES, a, hi) THEN hi ELSE a
PNeg(N, ES, a) == IF IsNaR(N, a) THEN a ELSE Round(N, ES, DyNeg(Val(N, ES, a)))
PIsNeg(N, ES, a) == ~IsNaR(N, a) /\ ~IsZero(a) /\ Val(N, ES, a).neg
PAbs(N, ES, a) == IF PIsNeg(N, ES, a) THEN PNeg(N, ES, a) ELSE a
POne(N) == Pow2(N - 2)
PSignum(N, ES, a) ==
  IF IsNaR(N, a) \/ IsZero(a) THEN a ELSE IF PIsNeg(N, ES, a) THEN Neg(N, POne(N)) ELSE POne(N)
\* "zero" | "nan" | "normal"
PClass(N, a) == IF IsZero(a) THEN "zero" ELSE IF IsNaR(N, a) THEN "nan" ELSE "normal"
\* copysign(x, y): magnitude of x, sign of y.  Zero counts as positive (its sign bit, and what
\* is_sign_positive reports); for y = NaR the sign is a convention, so either sign is allowed.
PCopySignSet(N, ES, x, y) ==
  IF IsNaR(N, x) \/ IsZero(x) THEN {x}
  ELSE IF IsNaR(N, y) THEN {x, PNeg(N, ES, x)}
  ELSE IF PIsNeg(N, ES, y) = PIsNeg(N, ES, x) THEN {x} ELSE {PNeg(N, ES, x)}

\* the crate's documented compositions
PRecip(N, ES, a) == PDiv(N, ES, POne(N), a)
=======================================================================
